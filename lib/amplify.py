"""Drift-guided amplification.

Full conformance (Conf.tla) sees ANY behavioural difference between the real contracts and the mirror
specification on an explored input, but it is deliberately not a property verdict.  Many property
violations need a later step to manifest (a corrupted record is harmless until the position is closed,
liquidated, charged ...).  So: where a recorded step drifts from the mirror, the history up to and
including that step is continued with a battery of follow-up operations for the traders involved, and
the continued histories are judged - by the property's own predicates only - like any other trace.
On a tree that conforms there is no drift and nothing is added."""
import os, json, re
from common import *

DRIFT_RE = re.compile(r'<<"DRIFT", (\d+), "([^"]*)", (\d+), "([^"]*)", "([^"]*)">>')
TRADERS = ("tr1", "tr2", "tr3")

def conf_drifts(trace_path, tag):
    """-> [(scenario, step, field, action)] or [] when the conformance pass cannot be evaluated"""
    metadir = os.path.join(WORK, "tlc_amp_%s_%d" % (tag, os.getpid()))
    try:
        rc, out = java_tlc(os.path.join(SPEC, "trace"), "Trace.tla", "Trace.cfg", metadir,
                           env_extra={"TRACE": trace_path, "ONLY": "CONF"}, timeout=1200)
    except ToolError:
        return []
    if "Model checking completed. No error has been found." not in out:
        return []
    return [(m.group(2), int(m.group(3)), m.group(4), m.group(5)) for m in DRIFT_RE.finditer(out)]

def ops_of_trace(trace_path, wanted):
    """concrete operations of the wanted scenarios, rebuilt from the recorded events themselves"""
    out = {}
    for l in open(trace_path):
        e = json.loads(l)
        s = e.get("scn")
        if s not in wanted:
            continue
        if e["kind"] == "reset":
            out[s] = dict(deploy=e.get("deploy", {}), ops=[])
        elif s in out:
            t = e["tx"]
            if e["kind"] == "tx":
                op = dict(k="tx", c=t["c"], m=t["m"], s=t["s"], a=t["a"])
                if t.get("funds"):
                    op["funds"] = t["funds"]
                if e.get("fault"):
                    op["fault"] = e["fault"]
            elif e["kind"] == "block":
                op = dict(k="block", dh=t["a"].get("dh", 1), dt=t["a"].get("dt", 15))
            else:
                op = dict(k="query", c=t["c"], q=t["m"], a=t["a"])
            out[s]["ops"].append(op)
    return out

def battery(native, v, who):
    """follow-up operations for trader `who` on vAMM `v` (each list continues the drifting history)"""
    f = lambda m: m if native else 0
    tx = lambda m, s, a, funds=0: dict(k="tx", c="engine", m=m, s=s, a=a, **({"funds": funds} if funds else {}))
    blk = lambda dt: dict(k="block", dh=1, dt=dt)
    close = tx("close_position", who, dict(vamm=v, limit=0))
    liq = tx("liquidate", "liq", dict(vamm=v, trader=who, limit=0))
    pf = tx("pay_funding", "stranger", dict(vamm=v))
    q = [dict(k="query", c="engine", q="margin_ratio", a=dict(vamm=v, trader=who)),
         dict(k="query", c=v, q="twap_price", a=dict(interval=900))]
    opn = lambda side, m, lev: tx("open_position", who, dict(vamm=v, side=side, margin=m, leverage=lev, limit=0), f(m))
    return [
        [close],
        [blk(15), close],
        [liq, close],
        [blk(901)] + q + [liq, close],
        [tx("withdraw_margin", who, dict(vamm=v, amount=10)), close],
        [tx("deposit_margin", who, dict(vamm=v, amount=50), f(50)), close],
        [opn("buy", 300, 200), close],
        [opn("sell", 300, 200), close],
        [dict(k="flatten", s=who, v=v, delta=0), opn("buy", 200, 200), close],
        [blk(3600), pf, close],
        [blk(3600), pf, tx("withdraw_margin", who, dict(vamm=v, amount=1)), blk(15), close],
        [blk(15), opn("buy", 2000, 1000), blk(901), liq, close],
    ]

def amplified(jobs, rundir, cap_kinds=10):
    """jobs: [(tag, trace_path, scenario_path)] -> path of a scenario file with the continued histories (or None)"""
    picked = {}         # (action, field) -> (trace, scenario, step)
    todo = [(tag, tp) for tag, tp, sp in jobs if tag not in ("prodscale", "bigvamm", "replay")]
    with ThreadPoolExecutor(max_workers=4) as ex:
        res = list(ex.map(lambda j: conf_drifts(j[1], j[0]), todo))
    for (tag, tp), drifts in zip(todo, res):
        for (scn, step, field, action) in drifts:
            key = (action, field)
            if key not in picked or step < picked[key][2]:
                picked[key] = (tp, scn, step)
    if not picked:
        return None, 0
    out = []
    for n, ((action, field), (tp, scn, step)) in enumerate(sorted(picked.items())[:cap_kinds]):
        rec = ops_of_trace(tp, {scn}).get(scn)
        if not rec:
            continue
        ops = rec["ops"][:step]
        dep = rec["deploy"] if isinstance(rec["deploy"], dict) else {}
        if dep.get("direct") or dep.get("big"):
            continue
        native = dep.get("collateral") == "native"
        last = ops[-1] if ops else {}
        v = (last.get("a") or {}).get("vamm", "vamm1") if isinstance(last.get("a"), dict) else "vamm1"
        if v not in ("vamm1", "vamm2", "vamm3"):
            v = "vamm1"
        who = [last.get("s")] if last.get("s") in TRADERS else []
        if isinstance(last.get("a"), dict) and last["a"].get("trader") in TRADERS:
            who.append(last["a"]["trader"])
        who += [t for t in TRADERS if t not in who]
        for t in who[:3]:
            for j, tail in enumerate(battery(native, v, t)):
                out.append(dict(id="amp-%d-%s-%d" % (n, t, j), deploy=dep, ops=ops + tail))
    if not out:
        return None, len(picked)
    path = os.path.join(rundir, "amplified.scn.ndjson")
    with open(path, "w") as f:
        for s in out:
            f.write(json.dumps(s) + "\n")
    return path, len(picked)
