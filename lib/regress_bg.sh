#!/bin/bash
# Regression of the seeded catalogue, meant for `vp run --with-repo -- bash lib/regress_bg.sh [ids...]`:
# runs in a snapshot of /verif against the snapshot of /repo ($VP_RUN_REPO), so /repo itself stays free.
# For each seeded change: apply it to the repo snapshot, run the property's quick check, undo.
R=${VP_RUN_REPO:-/repo}
sed -i "s#path = \"/repo/#path = \"$R/#" harness/Cargo.toml
IDS=${@:-$(ls seeded | grep -v "negative\|regression")}
for id in $IDS; do
  d=seeded/$id
  [ -f $d/patch.diff ] || continue
  pf=$d/patch.diff
  for alt in $d/patch_ported*.diff; do [ -f "$alt" ] && pf=$alt; done
  H=$(pwd)
  ( cd $R && git checkout -q -- . && { git apply $H/$pf 2>/dev/null || git apply --3way $H/$pf 2>/dev/null; } && git reset -q ) || { echo "$id: PATCH-DOES-NOT-APPLY"; ( cd $R && git reset -q --hard HEAD ); continue; }
  pid=${id:0:3}; out=$(./check $pid --tier quick 2>&1); rc=$?
  nv=$(echo "$out" | grep -c "^VIOLATION")
  first=$(echo "$out" | grep "^VIOLATION" | head -1 | cut -c1-170)
  echo "$id: rc=$rc violations=$nv $first $(echo "$out" | grep -E "TOOL-ERROR" | head -1 | cut -c1-200)"
  ( cd $R && git checkout -q -- . )
done
