#!/usr/bin/env python3
"""Regenerates MANIFEST.json from the table below (keeps it valid and in sync with ./check)."""
import json, os
ROOT = os.path.dirname(os.path.dirname(os.path.abspath(__file__)))
CLAIMED = {
 "C01": ("bounded vAMM models + trace validation at the reduced scale + big-natural trace validation at the real scale (TraceBig.tla)", "kmono / base / return-to-earlier-size invariants evaluated by TLC on every recorded vAMM state (direct-swap and engine-driven histories), on the bounded vAMM model, and - with the big-natural arithmetic of BigNat.tla - on vAMM histories at 6 / 9 / 12 / 18 decimals with reserves up to the 128-bit range"),
 "C02": ("trace validation of engine histories", "sum of recorded position sizes = vAMM net size after every recorded transaction, failed ones included"),
 "C03": ("trace validation (balances + transfer paths)", "total supply conserved, frame condition on third parties, transfer paths restricted to sender/engine/fund/pool, liquidated trader receives nothing"),
 "C04": ("trace validation with TLA+ equity oracle", "payout of every recorded whole close = margin + realised PnL - funding computed by TLC from raw state; bad-debt closes rejected; insurance-fund decrease bounded by recorded prepaid bad debt"),
 "C05": ("trace validation with TLA+ margin-ratio oracle", "margin ratio and free collateral recomputed by the specification's own operators (spot/15-min TWAP) on recorded raw state after every open/withdraw; leverage bounds; deposit/withdraw exactness"),
 "C06": ("trace validation with TLA+ liquidation-ratio oracle", "liquidations succeed only when the specification's liquidation ratio (spot/TWAP, oracle override at 10% spread) <= maintenance; payouts of full and partial liquidations recomputed"),
 "C10": ("trace validation (frame condition on the storage records and on the engine's interface view) + bounded model Admin", "every other trader's stored position (all fields, existence) and the position the engine's own Position query answers for them unchanged by every recorded transaction except the named target of Liquidate - administration of every contract interleaved with trading (bounded model Admin, family c10adm), exactly flat books, address aliases; queries leave the storage digest unchanged"),
 "C12": ("trace validation (fee transfers)", "fee transfers to fund/pool recomputed from notional x ratio for opens, reversals, closes, partial closes; no fee on deposit/withdraw/funding/liquidation"),
 "C15": ("trace validation with TLA+ band oracle over ghost block-start reserves", "per-block band recomputed by the specification from the reserves recorded when the block began (ghost, not the stored snapshots); whole-vs-partial close decision recomputed; sub-second blocks, band-edge landings, closes with limits"),
 "C16": ("trace validation with ghost liquidation block", "restriction mode: ghost 'liquidated in this block' + stored block stamp decide must-fail / must-not-be-restricted"),
 "C17": ("trace validation (query then execute), also at the real scale (TraceBig.tla)", "quoted amount = executed amount, exact requested side (both also on production-scale limb-encoded histories), slippage limit iff, limit forwarded unchanged by the engine (limits placed at the vAMM's own quote +/- 1)"),
 "C18": ("trace validation (TWAP bounds)", "vAMM and price-feed TWAPs within the snapshot/round prices overlapping the window; one snapshot per block with final reserves; latest / n-back queries exact"),
 "C07": ("trace validation with TLA+ enabling condition", "Liquidate issued in a state where the specification's enabling condition holds (ratio below maintenance by the spec's own operators, vAMM open/registered/fillable/in band, fee ratio non-zero, fund ample) must succeed; failures matching a recorded known finding (F5, F6) are reported as KNOWN-FINDING"),
 "C08": ("fault enumeration + trace validation + micro-step bounded models (SystemStep.tla over the small-step VM VmStep.tla)", "TLC visits every intermediate configuration of every transaction of the bounded model with a failure at every call index (invariants MicroInv / EndInv, refinement of the big-step VM); probe-based failure injected at every sub-message index of every engine operation kind (fault sweep) plus natural failures; TLC checks storage-digest equality on failure, no swallowed sub-failure, no temporary residue"),
 "C09": ("role matrix + trace validation with a ghost role map", "every privileged execute variant x 8 sender kinds (address arguments ranging over role holders), before and after role transfers, on three deployments (incl. vAMMs without insurance fund), executed on the real contracts; TLC checks ok => sender holds the role in the GHOST role map (what the deployment's messages and the successful transfers since established, not the stored configuration), failure => digest unchanged"),
 "C11": ("trace validation with TLA+ funding oracle", "schedule, premium fraction (vAMM TWAP - oracle TWAP recomputed by the specification), next funding time, vault<->fund transfer, and charging/checkpoint on trade, withdraw, close, reversal"),
 "C13": ("twin executions + TLA+ equivalence predicate", "the same history executed in lock-step on a cw20 and a native deployment, the native call attaching exactly what the cw20 call pulled; TLC compares results, positions, vAMM state and per-party balance deltas (Twin.tla); divergences matching the recorded findings F3 / F11 are reported as KNOWN-FINDING"),
 "C14": ("gate matrix + bounded models Gates / Admin + trace validation", "paused x open x registered x operation matrix with live positions (healthy and under-margined holders), shutdown from every subset of already-closed vAMMs, random registry histories with membership queries, every order of gate / registry / pointer operations and trades up to the depth bound"),
 "C19": ("TLA+ big-natural judgement of the real type's operation table", "every ordered operand pair over sign x 16 magnitudes up to 2^128-1: all operators, checked forms, predicates, display/parse/serde round trips evaluated on the real Integer (each under catch_unwind: a panic is an observation) and judged by TLC against BigNat arithmetic"),
 "C20": ("configuration sequences + cap histories + trace validation", "random UpdateConfig sequences at boundary values on engine and vAMM, decimals check at registration, trades against changing caps and whitelist membership"),
}
NA = {
}
def main():
    checks = []
    for pid, (tech, text) in sorted(CLAIMED.items()):
        checks.append(dict(
            property_id=pid,
            quick_cmd="./check %s --tier quick" % pid,
            thorough_cmd="./check %s --tier thorough" % pid,
            evidence_file="/verif/evidence/%s.json" % pid,
            replay_cmd_template="./check %s --replay {path}" % pid,
            engine="tla-trace",
            level_claimed=dict(category="model_checking",
                text="TLC evaluates the property's TLA+ predicate (spec/Props.tla) on every step of executions recorded from the real contracts (TLC-generated, pinned and randomly driven scenarios) and on the bounded TLA+ model where one exists: " + text,
                design_ref="DESIGN.md section 7 " + pid),
            level_note="bounded: explored histories only (see evidence); trusted: TLC, cw-multi-test dispatch semantics, harness state projection, reduced scale D=100 via cfg(margined_verif) hooks",
            technique="TLA+ spec + TLC trace validation of real-contract executions; " + tech))
    m = dict(version=1,
        setup_cmd="./check setup",
        hooks=dict(guard="margined_verif", enable="harness/.cargo/config.toml: rustflags --cfg margined_verif (path deps on /repo)",
                   baseline_off_cmd="cd /repo && cargo test --workspace --no-fail-fast --offline",
                   source_commits=["d96ebdc"], add_only=True),
        engines=[dict(name="tla-trace", path="/verif/spec", serves_properties=sorted(CLAIMED), kind_free_text="explicit TLA+ specification (mirror of the contracts) + TLC; conformance harness /verif/harness drives the real contracts under cw-multi-test and records NDJSON traces")],
        checks=checks,
        notes="See DESIGN.md. known_findings.json lists genuine defects (fixed or recorded).",
        not_applicable=[dict(property_id=k, reason=v) for k, v in sorted(NA.items())])
    json.dump(m, open(os.path.join(ROOT, "MANIFEST.json"), "w"), indent=1)
main()
