"""C13: lock-step twin executions (cw20 / native) judged by spec/Twin.tla."""
import os, json, time
from common import *
import mc, gen

def run(pid, tier, seed, rundir, findings, t0, replay=None):
    n = 1 if tier == "quick" else 8
    scn_files = []
    if replay:
        body = json.load(open(replay))
        sp = os.path.join(rundir, "replay.scn.ndjson")
        open(sp, "w").write(json.dumps(body.get("scenario", body)) + "\n")
        scn_files.append(sp)
    else:
        for k, (drv, cnt) in enumerate([("engine-cw20", 150), ("liq", 80), ("funding", 60), ("fluct", 40), ("caps", 30)]):
            sp = os.path.join(rundir, "src%d.scn.ndjson" % k)
            harness(["random", drv, str(seed * 131 + k), str(cnt * n), os.path.join(rundir, "src%d.trace.ndjson" % k), "25", sp])
            scn_files.append(sp)
        for name, scns in [("c13rev", gen.c13rev(tier, seed)), ("c13flat", gen.c13flat(tier, seed)), ("closelim", gen.closelim(tier, seed)), ("poorwallet", gen.poorwallet(tier, seed)), ("c13fund", gen.c13fund(tier, seed)), ("noallow", gen.noallow(tier, seed)), ("liqfees", gen.samp(gen.liqfees(tier, seed), 60, seed)), ("c08", gen.c08(tier, seed)), ("c05", gen.c05(tier, seed)), ("c16", gen.c16(tier, seed)), ("c07", gen.c07(tier, seed)),
                           ("pool", gen.pool(tier, seed, cap=250 if tier == "quick" else 3000, only_cw20=True))]:
            sp = os.path.join(rundir, name + ".scn.ndjson")
            with open(sp, "w") as f:
                for s in scns:
                    if s["deploy"].get("collateral", "cw20") == "cw20":
                        f.write(json.dumps(s) + "\n")
            scn_files.append(sp)
        pinned = os.path.join(ROOT, "scenarios", "findings.ndjson")
        if os.path.exists(pinned):
            scn_files.append(pinned)
    mcres = mc.run_models(pid, tier, seed, rundir) if not replay else dict(states=0, transitions=0, models=[], violations=[])
    hits, lines, kf, samples, tstates, nev = {}, [], [], [], 0, 0
    seen = set()
    for k, sp in enumerate(scn_files):
        tp = os.path.join(rundir, "twin%d.trace.ndjson" % k)
        harness(["twin", sp, tp])
        metadir = os.path.join(WORK, "tlc_twin_%d_%d" % (k, os.getpid()))
        rc, out = java_tlc(SPEC, "Twin.tla", "Twin.cfg", metadir, env_extra={"TRACE": tp})
        if "Model checking completed. No error has been found." not in out or "REJECTED" in out:
            raise ToolError("TLC did not accept the twin trace %s:\n%s" % (tp, tail_err(out)))
        m = HITS_RE.search(out)
        if m:
            for a, b in json.loads(m.group(1).replace('\\"', '"')).items():
                hits[a] = hits.get(a, 0) + b
        st = STAT_RE.search(out)
        tstates += int(st.group(2)) if st else 0
        scns = read_scenarios(sp)
        if scns and len(samples) < 2:
            s0 = list(scns.values())[len(scns) // 2]
            samples.append(dict(id=s0.get("id"), deploy=s0.get("deploy"), ops=s0.get("ops", [])[:6]))
        first = {}
        for v in parse_viols(out):
            key = (v["scn"], v["i"])
            if key in first:
                continue            # one report per diverging step
            first[key] = v
            f = findings.get(v["finding"])
            if f and f.get("status") == "known" and f.get("property") == pid:
                if v["finding"] not in seen:
                    seen.add(v["finding"])
                    kf.append("KNOWN-FINDING: property=%s %s: %s" % (pid, v["finding"], f.get("what", "")))
            else:
                scn = scns.get(v["scn"], dict(id=v["scn"], deploy={}, ops=[]))
                ops = [o for o in scn.get("ops", []) if o.get("k") != "sweep"]
                path = write_replay(pid, dict(scn, ops=ops), v["i"], v["tag"], v["finding"])
                lines.append("VIOLATION property=%s replay=%s clause=%s scenario=%s step=%d" % (pid, path, v["tag"], v["scn"], v["i"]))
    for mv in mcres.get("violations", []):
        # replay the bounded model's counterexample on the real twin deployments
        sp = os.path.join(rundir, "mccex.scn.ndjson"); tp = os.path.join(rundir, "mccex.trace.ndjson")
        open(sp, "w").write(json.dumps(mv["scenario"]) + "\n")
        harness(["twin", sp, tp])
        rc, out = java_tlc(SPEC, "Twin.tla", "Twin.cfg", os.path.join(WORK, "tlc_twincex_%d" % os.getpid()), env_extra={"TRACE": tp})
        real = [v for v in parse_viols(out) if not (findings.get(v["finding"], {}).get("status") == "known")]
        if not real:
            raise ToolError("bounded twin model reports %s but the real twin deployments do not reproduce it (specification drift): %s" % (mv["tag"], mv["replay"]))
        lines.append("VIOLATION property=%s replay=%s clause=%s (bounded model %s, confirmed on the real contracts)" % (pid, mv["replay"], mv.get("tag", "?"), mv.get("model", "?")))
    nev = hits.get("events", 0)
    coverage = dict(states=max(1, mcres["states"] + tstates), transitions=max(1, mcres["transitions"] + nev),
                    mc_states=mcres["states"], mc_transitions=mcres["transitions"], mc_models=mcres["models"],
                    traces_validated_against_impl=hits.get("scenarios", 0) + len(scn_files), evaluations=nev,
                    distinct_nontrivial=hits.get("both_run", 0),
                    rule="one evaluation = one operation executed on a cw20 and a native deployment in lock-step (the native call attaches exactly what the cw20 call pulled from the sender); non-trivial = the operation succeeded on the cw20 side (both_run), counted by TLC; steps after a reported divergence are not judged",
                    antecedent_hits=hits, samples=samples, exhaustive=False, known_findings_hit=sorted(seen),
                    checker_cmd="java tlc2.TLC -config Twin.cfg Twin.tla (TRACE=twin trace)")
    write_evidence(pid, tier, seed, coverage, time.time() - t0, len(lines), [
        "twin deployments differ only in the collateral kind (cw20 token with 2 decimals / native denom cwasm with 2 decimals)",
        "ample balances and allowances so that only protocol logic can fail", "TLC 1.8.0; cw-multi-test 0.13.4"])
    shutil.rmtree(rundir, ignore_errors=True)
    for l in kf:
        print(l)
    if lines:
        for l in lines[:20]:
            print(l)
        return 1
    need = ["open_position", "close_position", "reversal", "funds_attached", "with_fees", "liquidate", "deposit_margin", "withdraw_margin"]
    missing = [x for x in need if hits.get(x, 0) == 0]
    if missing and not replay:
        print("TOOL-ERROR: vacuous run for C13: %s" % missing)
        return 2
    print("OK property=C13 tier=%s scenarios=%d steps=%d both_run=%d wall=%.1fs" % (tier, hits.get("scenarios", 0), nev, hits.get("both_run", 0), time.time() - t0))
    return 0
