"""./check selftest: demonstrates that the specification is bound to the recorded executions.
A trace of the real contracts is corrupted in one field / one event at a time (or one observation
hook is silenced) and the corresponding property check and full conformance must reject it."""
import os, json, copy
from common import *

def run(seed):
    build_harness()
    rundir = os.path.join(WORK, "selftest_%d" % os.getpid())
    os.makedirs(rundir, exist_ok=True)
    base = os.path.join(rundir, "base.ndjson")
    harness(["random", "engine-cw20", str(4242 + seed), "25", base, "25"])
    evs = [json.loads(l) for l in open(base)]
    def first(pred):
        for i, e in enumerate(evs):
            if i > 0 and evs[i]["kind"] != "reset" and evs[i - 1]["scn"] == e["scn"] and pred(e):
                return i
        return None
    okopen = lambda e: e["kind"] == "tx" and e["tx"]["m"] == "open_position" and e["res"]["ok"]
    feeopen = lambda e: okopen(e) and any(x["to"] in ("ifund", "fpool") for x in e["xfers"])
    failed = lambda e: e["kind"] == "tx" and e["tx"]["c"] == "engine" and not e["res"]["ok"] and len(e["calls"]) > 1
    def mut_bal(e): e["post"]["bal"]["tr1"] += 1
    def mut_size(e):
        t = e["tx"]["s"]; e["post"]["eng"]["pos"]["vamm1"][t]["size"] += 1
    def mut_x(e): e["post"]["vamm"]["vamm1"]["st"]["x"] -= 7
    def mut_ok(e): e["res"]["ok"] = True
    def mut_xfers(e): e["xfers"] = []
    def mut_blk(e):
        t = e["tx"]["s"]; e["post"]["eng"]["pos"]["vamm1"][t]["blk"] += 1
    def mut_tmp(e): e["post"]["eng"]["tmp"]["swap"] = True
    def mut_margin(e):
        t = e["tx"]["s"]; e["post"]["eng"]["pos"]["vamm1"][t]["margin"] += 3
    cases = [
        ("balance of a bystander +1", okopen, mut_bal, ["C03", "CONF"]),
        ("stored position size +1", okopen, mut_size, ["C02", "CONF"]),
        ("quote reserve -7", okopen, mut_x, ["C01", "CONF"]),
        ("failed transaction reported as ok", failed, mut_ok, ["C08", "CONF"]),
        ("transfer hook silenced (no transfers logged)", feeopen, mut_xfers, ["C12", "CONF"]),
        ("position block stamp +1", okopen, mut_blk, ["CONF"]),
        ("leftover tmp-swap flag", okopen, mut_tmp, ["C08", "CONF"]),
        ("stored margin +3", okopen, mut_margin, ["CONF"]),
        ("one event dropped", okopen, None, ["CONF"]),
    ]
    allok = True
    for name, pred, mut, checks in cases:
        i = first(pred)
        if i is None:
            print("selftest: no suitable event for '%s'" % name)
            allok = False
            continue
        ev2 = copy.deepcopy(evs)
        if mut is None:
            del ev2[i]
        else:
            mut(ev2[i])
        path = os.path.join(rundir, "corrupt.ndjson")
        with open(path, "w") as f:
            for e in ev2:
                f.write(json.dumps(e) + "\n")
        for chk in checks:
            metadir = os.path.join(WORK, "tlc_self_%d" % os.getpid())
            rc, out = java_tlc(os.path.join(SPEC, "trace"), "Trace.tla", "Trace.cfg", metadir, env_extra={"TRACE": path, "ONLY": chk})
            hit = ('"DRIFT"' in out) if chk == "CONF" else ('"VIOL"' in out)
            print("selftest: %-45s -> %-5s %s" % (name, chk, "rejected" if hit else "ACCEPTED (binding failure)"))
            allok = allok and hit
    # the uncorrupted trace must be accepted
    for chk in ("C01", "C02", "C03", "C08", "C12", "CONF"):
        rc, out = java_tlc(os.path.join(SPEC, "trace"), "Trace.tla", "Trace.cfg", os.path.join(WORK, "tlc_self_%d" % os.getpid()), env_extra={"TRACE": base, "ONLY": chk})
        clean = '"DRIFT"' not in out and '"VIOL"' not in out and "No error has been found" in out
        print("selftest: %-45s -> %-5s %s" % ("uncorrupted trace", chk, "accepted" if clean else "REJECTED"))
        allok = allok and clean
    shutil.rmtree(rundir, ignore_errors=True)
    return 0 if allok else 1
