"""C19: the real Integer type evaluated on an operand grid; TLC judges the table (spec/SInt.tla)
and exhaustively checks the transcription of the type over small magnitudes (spec/mc/MC_SInt)."""
import os, json, time
from common import *
import mc

def run(pid, tier, seed, rundir, findings, t0):
    table = os.path.join(rundir, "sint.ndjson")
    info = harness(["sint", table])
    metadir = os.path.join(WORK, "tlc_sint_%d" % os.getpid())
    rc, out = java_tlc(SPEC, "SInt.tla", "SInt.cfg", metadir, env_extra={"TRACE": table})
    if "Model checking completed. No error has been found." not in out or "REJECTED" in out:
        raise ToolError("TLC did not accept the Integer table:\n" + tail_err(out))
    viols = [dict(row=v["line"], tag=v["tag"], operands=v["finding"].replace('\\"', '"')) for v in parse_viols(out)]
    hits = {}
    m = HITS_RE.search(out)
    if m:
        hits = json.loads(m.group(1).replace('\\"', '"'))
    st = STAT_RE.search(out)
    mcres = mc.run_models(pid, tier, seed, rundir)
    rows = [json.loads(l) for l in open(table)]
    samples = [dict(a=r["a"], b=r["b"], add=dict(st=r["add"]["st"], neg=r["add"]["neg"], l=r["add"]["l"], eq0=r["add"]["eq0"]),
                    cmul=dict(st=r["cmul"]["st"]), cmp=r["cmp"]) for r in (rows[17], rows[len(rows) // 2], rows[-3])]
    lines = []
    tags = {}
    for v in viols:
        tags.setdefault(v["tag"], v)
    for tag, v in sorted(tags.items()):
        os.makedirs(os.path.join(ROOT, "replays"), exist_ok=True)
        path = os.path.join(ROOT, "replays", "C19_%s.json" % tag.replace(".", "_"))
        json.dump(dict(property=pid, tag=tag, operands=json.loads(v["operands"]), row=rows[v["row"] - 1]), open(path, "w"), indent=1)
        lines.append("VIOLATION property=%s replay=%s clause=%s operands=%s" % (pid, path, tag, v["operands"]))
    ndrift = out.count('"DRIFT"')
    if ndrift:
        print("SPEC-DRIFT: %d rows where the transcription SIntT predicts a different result than the real type (advisory)" % ndrift)
    for mv in mcres.get("violations", []):
        # the transcription (of the current code) is wrong w.r.t. the integers: real only if the table shows it too
        if not lines:
            raise ToolError("MC_SInt violates %s but the table of the real type is clean: transcription drift (%s)" % (mv.get("tag"), mv["replay"]))
    nontriv = sum(1 for r in rows if r["a"]["l"] == [0] or r["b"]["l"] == [0] or len(r["a"]["l"]) >= 10 or len(r["b"]["l"]) >= 10
                  or (r["a"]["l"] == r["b"]["l"] and r["a"]["neg"] != r["b"]["neg"]))
    coverage = dict(states=max(1, mcres["states"] + (int(st.group(2)) if st else 0)),
                    transitions=max(1, mcres["transitions"] + len(rows)),
                    mc_states=mcres["states"], mc_transitions=mcres["transitions"], mc_models=mcres["models"],
                    traces_validated_against_impl=1, evaluations=len(rows) * 11, distinct_nontrivial=nontriv,
                    rule="operand grid = sign x magnitude {0,1,2,3,5,7,10,9999,10000,2^64-1,2^64,2^64+1,10^19,2^127-1,2^127,2^127+1,MAX/2,MAX/3,10^38,MAX-2,MAX-1,MAX}; every ordered pair is a row with 11 operations "
                         "(add sub mul div, checked forms, neg, abs, comparisons) evaluated on the real type; non-trivial = a zero operand, equal magnitudes with opposite signs, or a 128-bit-boundary operand",
                    antecedent_hits=hits, samples=samples, exhaustive=True,
                    checker_cmd="java tlc2.TLC -config SInt.cfg SInt.tla (TRACE=table) + MC_SInt")
    write_evidence(pid, tier, seed, coverage, time.time() - t0, len(lines), [
        "the table is produced by the real margined_common::integer::Integer compiled from /repo's working tree",
        "big-natural arithmetic (spec/BigNat.tla) is the reference for 128-bit values; TLC 1.8.0"])
    shutil.rmtree(rundir, ignore_errors=True)
    if lines:
        for l in lines[:25]:
            print(l)
        if len(lines) > 25:
            print("... %d more violated clauses" % (len(lines) - 25))
        return 1
    need = ["zero_operand", "opposite_equal", "boundary_128", "overflow"]
    missing = [n for n in need if hits.get(n, 0) == 0]
    if missing:
        print("TOOL-ERROR: vacuous run for C19: %s" % missing)
        return 2
    print("OK property=C19 tier=%s rows=%d mc_states=%d wall=%.1fs" % (tier, len(rows), mcres["states"], time.time() - t0))
    return 0
