#!/usr/bin/env python3
"""Pretty-print a replay/scenario file by running it on the real contracts."""
import sys, json, os, subprocess, tempfile
sys.path.insert(0, os.path.dirname(os.path.abspath(__file__)))
from common import *
def main():
    body = json.load(open(sys.argv[1]))
    scn = body.get("scenario", body)
    d = tempfile.mkdtemp(dir=WORK)
    sp, tp = os.path.join(d, "s.ndjson"), os.path.join(d, "t.ndjson")
    open(sp, "w").write(json.dumps(scn) + "\n")
    harness(["run", sp, tp])
    print("deploy", json.dumps(scn.get("deploy")))
    for l in open(tp):
        e = json.loads(l)
        p = e["post"]
        if e["kind"] == "reset":
            print("reset eng.cfg", p["eng"]["cfg"], "vamm1.cfg", p["vamm"]["vamm1"]["cfg"]); continue
        print("#%d %s %s.%s by %s %s funds=%s fault=%s -> %s %s" % (e["i"], e["kind"], e["tx"]["c"], e["tx"]["m"], e["tx"]["s"], json.dumps(e["tx"]["a"]), e["tx"]["funds"], e["fault"], "ok" if e["res"]["ok"] else "ERR[" + e["res"]["err"] + "] " + e["res"]["raw"], e["res"]["val"] if e["kind"] == "query" else ""))
        if e["kind"] == "tx":
            print("     calls", [(c["n"], c["entry"][0], c["to"], c["msg"], "ok" if c["ok"] else "FAIL") for c in e["calls"]])
            if e["xfers"]: print("     xfers", [(x["from"], x["to"], x["amt"], x["ok"]) for x in e["xfers"]])
            if e["swaps"]: print("     swaps", [(s["type"], s["dir"], s["quote"], s["base"]) for s in e["swaps"]])
        for v, vm in p["vamm"].items():
            print("     %s st=%s snaps=%d" % (v, vm["st"], len(vm["snaps"])), "blk", p["blk"])
            for t, ps in p["eng"]["pos"][v].items():
                if ps["exists"]: print("       pos", t, ps)
        print("     eng.st", p["eng"]["st"], "bal", {k: v for k, v in p["bal"].items() if v}, "cpf", {v: p["eng"]["vmap"][v]["cpf"] for v in p["eng"]["vmap"]})
    shutil.rmtree(d, ignore_errors=True)
main()
