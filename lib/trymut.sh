#!/bin/bash
# developer tool: apply a seeded change to /repo, run one generator family for some properties, undo
# usage: trymut.sh <seeded-id> <family> <pid>...
id=$1; shift
cd /repo && git diff --quiet || { echo "/repo not clean"; exit 2; }
pf=/verif/seeded/$id/patch.diff
for alt in /verif/seeded/$id/patch_ported*.diff; do [ -f "$alt" ] && pf=$alt; done
git apply $pf || exit 2
cd /verif && python3 lib/trygen.py "$@" 2>&1 | grep -v WARNING
cd /repo && git checkout -q -- . && git clean -fdq -e target
