"""Bounded TLA+ models run with TLC (filled in as the mirror specification grows)."""
def run_models(pid, tier, seed, rundir):
    return dict(states=0, transitions=0, models=[], violations=[], exported=None)
