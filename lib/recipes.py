"""Which scenarios are replayed on the real contracts for which property."""
import os, json
import gen

ALL = ["C01", "C02", "C03", "C04", "C05", "C06", "C07", "C08", "C09", "C10", "C11", "C12",
       "C13", "C14", "C15", "C16", "C17", "C18", "C19", "C20"]

ASSUMPTIONS = [
    "contracts run natively under cw-multi-test 0.13.4 (its sub-message / reply / rollback semantics are the reference)",
    "conformance scale D=100 (2 decimals) enabled by the cfg(margined_verif) hooks; Uint128 overflow near 2^128 is out of scope",
    "the harness state projection (raw storage + balances) is faithful; it is exercised by ./check selftest",
    "TLC 1.8.0, CommunityModules Json/IOUtils",
]

# antecedent tags that must have fired at least once, else the run is vacuous (tool error)
REQUIRED = {
    "C01": ["swap", "remainder", "return", "reserve_beyond_64_bits", "decimals_18"],
    "C02": ["open_position", "close_position", "reversal", "liquidate", "failed"],
    "C03": ["moved", "native", "cw20", "fee", "liquidation"],
    "C04": ["whole_close", "profit", "loss"],
    "C05": ["open_ok", "open_rejected", "withdraw_ok", "withdraw_rejected", "deposit_ok", "reversal"],
    "C06": ["full", "rejected_healthy"],
    "C07": ["enabled"],
    "C08": ["injected", "injected_transfer", "natural_subfailure"],
    "C09": ["privileged_ok", "privileged_denied", "role_transfer"],
    "C10": ["position_changed", "several_traders", "query"],
    "C11": ["settled", "payment", "rejected", "charged"],
    "C12": ["fees_on", "open_position", "close_position", "reversal"],
    "C14": ["paused", "closed", "unregistered", "shutdown", "registry_query"],
    "C15": ["open_in_band", "whole_close"],
    "C16": ["restricted", "bystander_same_block", "later_block", "liquidation"],
    "C17": ["swap_input", "swap_output", "quoted", "limit_met", "limit_rejected", "engine_limit", "reserve_beyond_64_bits"],
    "C18": ["vamm_twap", "several_prices_in_window", "snapshot_written", "feed_get_twap_price", "feed_get_price"],
    "C20": ["capped_open_ok", "cap_rejected", "config_accepted", "config_rejected", "registered"],
}

def sources(pid, tier, seed, rundir, mcres):
    q = tier == "quick"
    n = 1 if q else 8
    R = lambda driver, count, maxops=25, k=0: ("random", driver, count * n, maxops, seed * 7919 + k)
    out = []
    mix = [R("engine", 120, 25, 1), R("liq", 120, 30, 2), R("fluct", 40, 25, 3), R("multi", 30, 25, 4), R("gates", 40, 30, 8)]
    if pid == "C01":
        out = [R("vamm", 600, 30, 1), R("engine", 80, 25, 2), R("liq", 60, 30, 3), R("gates", 80, 30, 4)]
    elif pid in ("C02", "C03", "C04", "C05", "C10", "C12"):
        out = mix + [R("engine-native", 60, 25, 5), R("caps", 30, 25, 6)] + ([R("liqwin", 80, 25, 7)] if pid in ("C02", "C03") else [])
    elif pid == "C07":
        out = [R("liq", 300, 30, 1), R("engine", 80, 25, 2), R("engine-realfeed", 40, 20, 3), R("fluct", 80, 25, 4), R("exactfund", 60, 25, 5), R("liqwin", 150, 25, 6), R("gates", 40, 30, 7)]
        for name, scns in (("c14gates", gen.c14(tier, seed)),):
            path = os.path.join(rundir, name + ".scn.ndjson")
            with open(path, "w") as f:
                for s in scns:
                    f.write(json.dumps(s) + "\n")
            out.append(("file", path))
    elif pid in ("C06", "C16"):
        out = [R("liq", 300, 30, 1), R("engine", 80, 25, 2), R("engine-realfeed", 40, 20, 3), R("fluct", 40, 25, 4), R("exactfund", 40, 25, 5), R("liqwin", 100, 25, 6)]
    elif pid == "C08":
        out = [R("engine", 60, 20, 1), R("liq", 60, 25, 2)]
    elif pid == "C09":
        out = [R("engine", 20, 15, 1)]
    elif pid == "C11":
        out = [R("funding", 200, 30, 1), R("engine", 80, 25, 2), R("engine-realfeed", 60, 25, 3)]
    elif pid == "C14":
        out = [R("engine", 40, 20, 1), R("gates", 200, 30, 2)]
    elif pid == "C15":
        out = [R("fluct", 300, 30, 1), R("vamm", 80, 30, 2)]
    elif pid == "C17":
        out = [R("vamm", 500, 30, 1), R("engine", 80, 25, 2)]
    elif pid == "C18":
        out = [R("vamm", 200, 30, 1), R("feed", 200, 30, 2), R("engine", 40, 25, 3), R("gates", 60, 30, 4)]
    elif pid == "C20":
        out = [R("caps", 200, 25, 1), R("engine", 40, 25, 2), R("gates", 80, 30, 3)]
    # static / generated scenario files
    for name, scns in gen.for_property(pid, tier, seed):
        path = os.path.join(rundir, name + ".scn.ndjson")
        with open(path, "w") as f:
            for s in scns:
                f.write(json.dumps(s) + "\n")
        out.append(("file", path))
    # pinned scenarios (finding reproductions, ported repository tests)
    pinned = os.path.join(os.path.dirname(os.path.dirname(os.path.abspath(__file__))), "scenarios")
    for fn in sorted(os.listdir(pinned)) if os.path.isdir(pinned) else []:
        if fn.endswith(".ndjson"):
            out.append(("file", os.path.join(pinned, fn)))
    # scenarios exported by the bounded models (spec -> impl)
    if mcres.get("exported"):
        for p in mcres["exported"]:
            out.append(("file", p))
    return out
