#!/bin/bash
# Applies each seeded change to /repo, runs the property's quick check, undoes the change.
# usage: eval_seeded.sh <dir-of-seeded-dirs> [ids...]
SRC=$1; shift
IDS=${@:-$(ls $SRC)}
cd /repo && git diff --quiet || { echo "/repo not clean"; exit 2; }
for id in $IDS; do
  d=$SRC/$id
  [ -f $d/patch.diff ] || continue
  cd /repo
  pf=$d/patch.diff
  # a patch written against an older HEAD may have been ported (same defect, current code)
  for alt in $d/patch_ported*.diff; do [ -f "$alt" ] && pf=$alt; done
  if ! git apply --check $pf 2>/dev/null; then
    if ! git apply --3way $pf 2>/dev/null; then echo "$id: PATCH-DOES-NOT-APPLY"; git reset -q --hard HEAD; continue; fi
  else
    git apply $pf
  fi
  git reset -q
  cd /verif
  pid=${id:0:3}; out=$(./check $pid --tier quick 2>&1); rc=$?
  nv=$(echo "$out" | grep -c "^VIOLATION")
  first=$(echo "$out" | grep "^VIOLATION" | head -1 | cut -c1-170)
  echo "$id: rc=$rc violations=$nv $first $(echo "$out" | grep -E "TOOL-ERROR" | head -1 | cut -c1-200)"
  cd /repo && git reset -q --hard HEAD && git clean -fdq -e target
done
