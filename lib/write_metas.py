#!/usr/bin/env python3
"""developer tool: writes seeded/<id>-r<N>/meta.json from the confirmation log and the eval_seeded.sh logs
usage: write_metas.py <round> <confirm.log> <first line of this round in confirm.log> <before.log[,before2.log]> <after.log[,after2.log]> <n earlier ideas>"""
import sys, os, re, json
ROOT = os.path.dirname(os.path.dirname(os.path.abspath(__file__)))
rnd, conf, first, before, after, nidea = sys.argv[1], sys.argv[2], int(sys.argv[3]), sys.argv[4], sys.argv[5], sys.argv[6]
ORD = {4: "fourth", 5: "fifth", 6: "sixth", 7: "seventh", 8: "eighth", 9: "ninth", 10: "tenth"}
confirm = {}
for line in open(conf).read().splitlines()[first:first + 20]:
    p, res = line.split(" ", 1)
    confirm[p] = res.strip()
def evals(paths):
    out = {}
    for path in paths.split(","):
        for line in open(path):
            m = re.match(r"(C\d\d)-r%s: rc=(\d+) violations=(\d+) ?(VIOLATION.*?)?\s*(TOOL-ERROR.*)?$" % rnd, line.strip())
            if m:
                out[m.group(1)] = dict(exit_code=int(m.group(2)), violations_reported=int(m.group(3)),
                                       first_violation=(m.group(4) or m.group(5) or "").strip())
    return out
B, A = evals(before), evals(after)
head = os.popen("git -C /repo rev-parse --short HEAD").read().strip()
for p in sorted(confirm):
    d = os.path.join(ROOT, "seeded", "%s-r%s" % (p, rnd))
    if not os.path.isdir(d):
        continue
    meta = {
        "property": p, "round": int(rnd),
        "source": "independent sub-agent (%s round: given only the property record and its own scratch worktree, told the %s earlier ideas for this property)" % (ORD.get(int(rnd), rnd + "th"), nidea),
        "needs_to_manifest": "see README.md (the agent's description of the manifest condition)",
        "confirmed": {"how": "lib/confirm_seeded.sh in the agent's scratch worktree of /repo HEAD (%s): demo alone passes; with patch.diff the 410 existing tests still pass and the demo fails" % head,
                      "result": confirm[p]},
        "detection_before_strengthening": B.get(p, {}),
        "detection": dict(cmd="git -C /repo apply seeded/%s-r%s/patch.diff && ./check %s --tier quick; git -C /repo checkout -- ." % (p, rnd, p), **A.get(p, {})),
    }
    json.dump(meta, open(os.path.join(d, "meta.json"), "w"), indent=1)
    print(p, B.get(p, {}).get("exit_code"), "->", A.get(p, {}).get("exit_code"))
