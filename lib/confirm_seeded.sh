#!/bin/bash
# Confirms one seeded change in a scratch worktree of /repo's HEAD:
#   demo alone passes; with the patch the suite still passes except the demo, which fails.
# usage: confirm_seeded.sh <dir with patch.diff demo.diff> <scratch worktree>
set -u
D=$1; WT=$2
cd $WT && git checkout -q -- . && git clean -fdq -e target -e _seeded
apply() { git apply --3way "$1" 2>/dev/null || git apply "$1" 2>/dev/null || patch -p1 -s < "$1"; }
apply $D/demo.diff || { echo "RESULT demo-does-not-apply"; exit 0; }
git reset -q
cargo test --workspace --no-fail-fast --offline seeded 2>&1 | grep -E "^test .*seeded.* \.\.\. |^error" > /tmp/confirm_demo_only_$$.txt
DEMO_OK=$(grep -c "\.\.\. ok" /tmp/confirm_demo_only_$$.txt); DEMO_FAIL=$(grep -c "FAILED" /tmp/confirm_demo_only_$$.txt)
apply $D/patch.diff || { echo "RESULT patch-does-not-apply"; git checkout -q -- .; git clean -fdq -e target -e _seeded; exit 0; }
git reset -q
cargo test --workspace --no-fail-fast --offline 2>&1 | grep -E "^test .* \.\.\. |^error(\[|:)" > /tmp/confirm_full_$$.txt
PASS=$(grep -c "\.\.\. ok" /tmp/confirm_full_$$.txt); FAILED=$(grep "FAILED" /tmp/confirm_full_$$.txt | grep -vc seeded); SEEDFAIL=$(grep "FAILED" /tmp/confirm_full_$$.txt | grep -c seeded)
ERR=$(grep -c "^error" /tmp/confirm_full_$$.txt)
echo "RESULT demo_only_ok=$DEMO_OK demo_only_fail=$DEMO_FAIL with_patch_pass=$PASS with_patch_other_fail=$FAILED with_patch_demo_fail=$SEEDFAIL build_errors=$ERR"
git checkout -q -- .; git clean -fdq -e target -e _seeded
