"""Shared machinery for ./check: build + run the harness, run TLC, parse results, write evidence.
No property logic lives here: every judgement is made by TLC on the TLA+ formulas."""
import json, os, re, subprocess, sys, time, shutil, hashlib
from concurrent.futures import ThreadPoolExecutor

ROOT = os.path.dirname(os.path.dirname(os.path.abspath(__file__)))
SPEC = os.path.join(ROOT, "spec")
HARNESS = os.path.join(ROOT, "harness")
BIN = os.path.join(HARNESS, "target", "release", "perpverif")
WORK = os.path.join(ROOT, "work")
JAR = "/opt/veriftools/tla/tla2tools.jar:/opt/veriftools/tla/CommunityModules-deps.jar"

class ToolError(Exception):
    pass

def sh(cmd, timeout=None, env=None, cwd=None):
    p = subprocess.run(cmd, stdout=subprocess.PIPE, stderr=subprocess.STDOUT, timeout=timeout,
                       env=env, cwd=cwd, text=True, errors="replace")
    return p.returncode, p.stdout

def build_harness():
    """Rebuild the harness (and therefore the contracts) from /repo's current working tree."""
    env = dict(os.environ, CARGO_NET_OFFLINE="true")
    t0 = time.time()
    rc, out = sh(["cargo", "build", "--release", "--offline", "--quiet"], cwd=HARNESS, env=env, timeout=1800)
    if rc != 0 or not os.path.exists(BIN):
        sys.stderr.write(out[-4000:])
        raise ToolError("harness build failed")
    return time.time() - t0

def harness(args, timeout=900):
    rc, out = sh([BIN] + args, timeout=timeout)
    if rc != 0:
        raise ToolError("harness failed: %s\n%s" % (" ".join(args), out[-2000:]))
    try:
        return json.loads(out.strip().splitlines()[-1])
    except Exception:
        return {}

def java_tlc(module_dir, module, cfg, metadir, env_extra=None, workers=1, xmx="3g", extra=None, timeout=3600):
    env = dict(os.environ)
    if env_extra:
        env.update(env_extra)
    os.makedirs(metadir, exist_ok=True)
    cmd = ["java", "-XX:+UseParallelGC", "-Xss1g", "-Xmx" + xmx,
           "-Dtlc2.tool.queue.IStateQueue=StateDeque" if workers == 1 else "-Dx=y",
           "-DTLA-Library=" + SPEC, "-cp", JAR, "tlc2.TLC",
           "-workers", str(workers), "-metadir", metadir, "-cleanup", "-noGenerateSpecTE",
           "-config", cfg] + (extra or []) + [module]
    try:
        rc, out = sh(cmd, cwd=module_dir, env=env, timeout=timeout)
    except subprocess.TimeoutExpired:
        raise ToolError("TLC timeout: %s" % module)
    shutil.rmtree(metadir, ignore_errors=True)
    return rc, out

VIOL_RE = re.compile(r'<<\s*"VIOL",\s*(\d+),\s*"([^"]*)",\s*(\d+),\s*"([^"]*)",\s*"((?:[^"\\]|\\.)*)"\s*>>')
HITS_RE = re.compile(r'<<"HITS", "(.*)">>')
STAT_RE = re.compile(r'(\d+) states generated, (\d+) distinct states found')

def parse_viols(out):
    """every VIOL tuple TLC printed must be parsed: a mismatch is a tool error, never silence"""
    flat = re.sub(r'\n\s+', ' ', out)      # TLC wraps long tuples over several lines
    viols = [dict(line=int(m.group(1)), scn=m.group(2), i=int(m.group(3)), tag=m.group(4), finding=m.group(5))
             for m in VIOL_RE.finditer(flat)]
    if len(viols) != flat.count('"VIOL"'):
        raise ToolError("could not parse every VIOL line TLC printed (%d of %d)" % (len(viols), flat.count('"VIOL"')))
    return viols

def run_trace(prop, trace_path, tag, module="Trace"):
    """Validate one recorded trace against Props.tla for property `prop`
    (module TraceS: structural validation of production-scale traces)."""
    metadir = os.path.join(WORK, "tlc_%s_%s_%d" % (prop, tag, os.getpid()))
    rc, out = java_tlc(os.path.join(SPEC, "trace"), module + ".tla", module + ".cfg", metadir,
                       env_extra={"TRACE": trace_path, "ONLY": prop})
    viols = parse_viols(out)
    hits = {}
    m = HITS_RE.search(out)
    if m:
        hits = json.loads(m.group(1).replace('\\"', '"'))
    st = STAT_RE.search(out)
    ok = ("Model checking completed. No error has been found." in out) and "REJECTED" not in out
    if not ok:
        raise ToolError("TLC did not accept trace %s for %s:\n%s" % (trace_path, prop, tail_err(out)))
    return dict(viols=viols, hits=hits, states=int(st.group(2)) if st else 0,
                generated=int(st.group(1)) if st else 0)

def tail_err(out):
    lines = out.splitlines()
    idx = [i for i, l in enumerate(lines) if l.startswith("Error") or "exception" in l.lower()]
    if idx:
        return "\n".join(lines[idx[0]: idx[0] + 25])
    return "\n".join(lines[-25:])

def load_findings():
    p = os.path.join(ROOT, "known_findings.json")
    if not os.path.exists(p):
        return {}
    d = json.load(open(p))
    return {f["id"]: f for f in d.get("findings", [])}

def read_scenarios(path):
    out = {}
    if path and os.path.exists(path):
        for l in open(path):
            l = l.strip()
            if l:
                s = json.loads(l)
                out[s.get("id", "")] = s
    return out

def write_replay(prop, scn, upto, tag, finding=""):
    os.makedirs(os.path.join(ROOT, "replays"), exist_ok=True)
    ops = scn.get("ops", [])[:upto]
    body = dict(property=prop, tag=tag, finding=finding,
                scenario=dict(id=scn.get("id", "replay"), deploy=scn.get("deploy", {}), ops=ops))
    h = hashlib.sha1(json.dumps(body, sort_keys=True).encode()).hexdigest()[:10]
    path = os.path.join(ROOT, "replays", "%s_%s_%s.json" % (prop, tag.replace(".", "_"), h))
    with open(path, "w") as f:
        json.dump(body, f, indent=1)
    return path

def write_evidence(prop, tier, seed, coverage, wall, violations, assumptions):
    os.makedirs(os.path.join(ROOT, "evidence"), exist_ok=True)
    ev = dict(property_id=prop, tier=tier, seed=seed, level="model_checking", coverage=coverage,
              assumptions=assumptions, wall_s=round(wall, 2), violations=violations)
    with open(os.path.join(ROOT, "evidence", prop + ".json"), "w") as f:
        json.dump(ev, f, indent=1)
