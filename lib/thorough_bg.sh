#!/bin/bash
# `vp run --with-repo -- bash lib/thorough_bg.sh [ids...]`: the thorough tier of every check, in a snapshot of /verif
# against the snapshot of /repo ($VP_RUN_REPO), so that /repo itself stays free for other work
R=${VP_RUN_REPO:-/repo}
sed -i "s#path = \"/repo/#path = \"$R/#" harness/Cargo.toml
./check setup || exit 2
for p in ${@:-C01 C02 C03 C04 C05 C06 C07 C08 C09 C10 C11 C12 C13 C14 C15 C16 C17 C18 C19 C20}; do
  /usr/bin/time -f "$p wall=%es" ./check $p --tier thorough 2>&1 | grep -E "^OK|^VIOLATION|TOOL-ERROR|KNOWN-FINDING|wall=" | cut -c1-220
done
