#!/usr/bin/env python3
"""Print the as-built table of bounded models (from the committed evidence files) as markdown."""
import json, glob, os
ROOT = os.path.dirname(os.path.dirname(os.path.abspath(__file__)))
rows = {}
for f in sorted(glob.glob(os.path.join(ROOT, "evidence", "C*.json"))):
    e = json.load(open(f))
    for m in e.get("coverage", {}).get("mc_models", []):
        k = m["name"]
        r = rows.setdefault(k, dict(props=[], **m))
        r["props"].append(e["property_id"])
print("| model | properties | depth | alphabet | gaps | faults | distinct states | transitions | exhaustive | wall s |")
print("|---|---|---|---|---|---|---|---|---|---|")
for k, r in rows.items():
    print("| `%s` | %s | %s | %s | %s | %s | %s | %s | %s | %s |" % (k, " ".join(r["props"]), r.get("depth", ""), r.get("alphabet", ""),
          r.get("gaps", ""), r.get("faults", ""), r.get("distinct_states", ""), r.get("transitions", ""), r.get("exhaustive_within_bound", ""), r.get("wall_s", "")))
