"""developer tool: run one generator family on the real contracts and judge it for some properties
usage: trygen.py <family> <pid> [<pid> ...] [--twin]"""
import sys, os, json, time
sys.path.insert(0, os.path.dirname(os.path.abspath(__file__)))
from common import *
import gen
fam = sys.argv[1]
pids = [a for a in sys.argv[2:] if not a.startswith("--")]
os.makedirs(WORK, exist_ok=True)
build_harness()
scns = getattr(gen, fam)("quick", 1)
sp = os.path.join(WORK, "try_%s.scn.ndjson" % fam)
tp = os.path.join(WORK, "try_%s.trace.ndjson" % fam)
with open(sp, "w") as f:
    for x in scns:
        f.write(json.dumps(x) + "\n")
t0 = time.time()
harness(["run", sp, tp])
print("ran %d scenarios in %.1fs" % (len(scns), time.time() - t0))
for pid in pids:
    t0 = time.time()
    r = run_trace(pid, tp, "try")
    print(pid, "viols", len(r["viols"]), "states", r["states"], "%.1fs" % (time.time() - t0))
    for v in r["viols"][:8]:
        print("   ", v)
    print("    hits", {k: v for k, v in r["hits"].items()})
