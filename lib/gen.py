"""Static scenario generators (matrices, sweeps, orderings).  Inputs only -- no expectations."""
def for_property(pid, tier, seed):
    return []
