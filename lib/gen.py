"""Static scenario generators (matrices, sweeps, orderings).  Inputs only -- they contain no
expectations; every judgement is made by TLC on the TLA+ predicates."""
import random, copy

D = 100

def tx(c, m, s, a=None, funds=0, fault=0):
    o = dict(k="tx", c=c, m=m, s=s, a=a or {})
    if funds:
        o["funds"] = funds
    if fault:
        o["fault"] = fault
    return o

def sweep(c, m, s, a=None, funds=0):
    o = tx(c, m, s, a, funds)
    o["k"] = "sweep"
    return o

def block(dt=15, dh=1):
    return dict(k="block", dh=dh, dt=dt)

def query(c, q, a=None):
    return dict(k="query", c=c, q=q, a=a or {})

def opn(s, side, margin, lev=1000, v="vamm1", limit=0, funds=0):
    return tx("engine", "open_position", s, dict(vamm=v, side=side, margin=margin, leverage=lev, limit=limit), funds)

def close(s, v="vamm1", limit=0):
    return tx("engine", "close_position", s, dict(vamm=v, limit=limit))

def liq(by, trader, v="vamm1", limit=0):
    return tx("engine", "liquidate", by, dict(vamm=v, trader=trader, limit=limit))

def dep(collateral="cw20", **kw):
    d = dict(collateral=collateral, dec=2)
    d.update(kw)
    return d

def fee_funds(native, margin, lev, toll, spread):
    if not native:
        return 0
    n = margin * lev // D
    return margin + n * toll // D + n * spread // D

def underwater_prefix(native=False, toll=0, spread=0, push=5000):
    """tr1 long 250.00 @10x, then tr2 shorts `push` notional: tr1 ends near / below maintenance."""
    return [block(15),
            opn("tr1", "buy", 2500, 1000, funds=fee_funds(native, 2500, 1000, toll, spread)),
            opn("tr2", "sell", push // 10, 1000, funds=fee_funds(native, push // 10, 1000, toll, spread)),
            block(901)]

# ------------------------------------------------------------------------------------------------
def c09(tier, seed):
    """every privileged execute variant x every kind of sender, before and after role transfers"""
    senders = ["owner", "pauser", "engine", "ifund", "vamm1", "tr1", "stranger", "newowner"]
    base = dict(dec=2, engine=dict(pauser="pauser"), fpool_bal=1000,
                vamms=[{}, dict(registered=False)])
    variants = [
        ("vamm1", "swap_input", dict(dir="add", amount=1000, limit=0, over=False)),
        ("vamm1", "swap_output", dict(dir="rem", amount=50, limit=0)),
        ("vamm1", "swap_input", dict(dir="add", amount=0, limit=0, over=False)),
        ("vamm1", "swap_output", dict(dir="add", amount=0, limit=0)),
        ("vamm1", "settle_funding", {}),
        ("vamm1", "update_config", dict(toll=1)),
        ("vamm1", "update_owner", dict(owner="newowner")),
        ("vamm1", "set_open", dict(open=False)),
        ("vamm2", "set_open", dict(open=False)),
        ("vamm1", "set_open", dict(open=True)),          # a request for the state the vAMM is already in
        ("vamm2", "set_open", dict(open=True)),
        ("engine", "update_config", dict(liqfee=4)),
        ("engine", "update_config", dict(owner="newowner")),
        ("engine", "set_pause", dict(pause=True)),
        ("engine", "update_pauser", dict(pauser="newowner")),
        ("engine", "add_whitelist", dict(address="tr1")),
        ("engine", "remove_whitelist", dict(address="tr2")),
        ("ifund", "withdraw", dict(amount=100)),
        ("ifund", "add_vamm", dict(vamm="vamm2")),
        ("ifund", "remove_vamm", dict(vamm="vamm1")),
        ("ifund", "update_owner", dict(owner="newowner")),
        ("ifund", "shutdown_vamms", {}),
        ("fpool", "update_owner", dict(owner="newowner")),
        ("fpool", "remove_token", {}),
        ("fpool", "send_token", dict(amount=10, recipient="tr3")),
        ("fpool", "send_token", dict(amount=10, recipient="owner")),
        ("fpool", "send_token", dict(amount=10, recipient="stranger")),
        ("feed", "append_price", dict(key="ETH", price=1100, t=100000)),
        ("feed", "append_multiple_price", dict(key="ETH", prices=[1100, 1200], ts=[100000, 100000])),
        # degenerate arguments: nothing to append / change / move - the role is checked all the same
        ("feed", "append_multiple_price", dict(key="ETH", prices=[], ts=[])),
        ("feed", "append_price", dict(key="ETH", price=0, t=100000)),
        ("engine", "update_config", {}),
        ("vamm1", "update_config", {}),
        ("ifund", "withdraw", dict(amount=0)),
        ("fpool", "send_token", dict(amount=0, recipient="tr3")),
        ("engine", "set_pause", dict(pause=False)),
        ("engine", "remove_whitelist", dict(address="stranger")),
        ("engine", "add_whitelist", dict(address="tr2")),
        ("ifund", "remove_vamm", dict(vamm="vamm2")),
        ("ifund", "add_vamm", dict(vamm="vamm1")),
        ("feed", "update_owner", dict(owner="newowner")),
    ]
    out = []
    k = 0
    # third deployment: vAMMs instantiated *without* an insurance fund (only the owner may open / close them)
    for coll, feed, nofund in (("cw20", "real", False), ("native", "mock", False), ("cw20", "mock", True), ("cw20", "mock", "samekey")):
        d = dict(base, collateral=coll, feed=feed)
        if nofund is True:
            d = dict(d, vamms=[dict(ifund_none=True), dict(registered=False, ifund_none=True, open=False)])
        if nofund == "samekey":
            # one key holds the owner and the pauser role of the engine (the default deployment)
            d = dict(d, engine=dict(pauser="owner"))
        pre_common = [block(3700), tx("engine", "add_whitelist", "pauser", dict(address="tr2"))]
        for (c, m, a) in variants:
            if c == "fpool" and m == "remove_token":
                pass
            for s in senders + (["tr2"] if m in ("remove_whitelist", "add_whitelist") else []):
                out.append(dict(id="c09-%d" % k, deploy=d, ops=pre_common + [tx(c, m, s, a)]))
                k += 1
        # fee pool add_token needs the token absent first
        for s in senders:
            out.append(dict(id="c09-%d" % k, deploy=d, ops=[tx("fpool", "remove_token", "owner", {}), tx("fpool", "add_token", s, {})]))
            k += 1
        # after a role transfer: the old holder has no rights, the new one exactly these
        transfers = [
            ("vamm1", tx("vamm1", "update_owner", "owner", dict(owner="newowner")), [("vamm1", "update_config", dict(spread=2)), ("vamm1", "set_open", dict(open=False)), ("vamm1", "update_owner", dict(owner="stranger"))]),
            ("vamm2", tx("vamm2", "update_owner", "owner", dict(owner="newowner")), [("vamm2", "set_open", dict(open=True)), ("vamm2", "set_open", dict(open=False))]),
            ("engine-owner", tx("engine", "update_config", "owner", dict(owner="newowner")), [("engine", "update_config", dict(liqfee=3)), ("engine", "set_pause", dict(pause=True)), ("engine", "add_whitelist", dict(address="tr3")), ("engine", "update_pauser", dict(pauser="stranger"))]),
            ("engine-owner+param", tx("engine", "update_config", "owner", dict(owner="newowner", liqfee=4)), [("engine", "update_config", dict(liqfee=3)), ("engine", "update_config", dict(owner="stranger", mmr=4))]),
            ("engine-owner+pools", tx("engine", "update_config", "owner", dict(owner="newowner", fpool="stranger", imr=20)), [("engine", "update_config", dict(liqfee=3))]),
            ("vamm-owner-then-config", tx("vamm1", "update_owner", "owner", dict(owner="newowner")), [("vamm1", "update_config", dict(toll=1, spread=2, fluct=3))]),
            ("engine-pauser", tx("engine", "update_pauser", "pauser", dict(pauser="newowner")), [("engine", "set_pause", dict(pause=True)), ("engine", "add_whitelist", dict(address="tr3")), ("engine", "update_pauser", dict(pauser="stranger"))]),
            ("ifund", tx("ifund", "update_owner", "owner", dict(owner="newowner")), [("ifund", "add_vamm", dict(vamm="vamm2")), ("ifund", "remove_vamm", dict(vamm="vamm1")), ("ifund", "shutdown_vamms", {})]),
            ("fpool", tx("fpool", "update_owner", "owner", dict(owner="newowner")), [("fpool", "send_token", dict(amount=10, recipient="tr3")), ("fpool", "send_token", dict(amount=10, recipient="newowner")), ("fpool", "send_token", dict(amount=10, recipient="owner")), ("fpool", "remove_token", {})]),
            ("feed", tx("feed", "update_owner", "owner", dict(owner="newowner")), [("feed", "append_price", dict(key="ETH", price=900, t=100000))]),
            ("vamm-engine", tx("vamm1", "update_config", "owner", dict(engine="newowner")), [("vamm1", "swap_input", dict(dir="add", amount=500, limit=0, over=False)), ("vamm1", "settle_funding", {})]),
            ("vamm-ifund", tx("vamm1", "update_config", "owner", dict(ifund="newowner")), [("vamm1", "set_open", dict(open=False))]),
        ]
        for (nm, t0, after) in transfers:
            for (c, m, a) in after:
                for s in ["owner", "pauser", "newowner", "stranger", "engine", "ifund"]:
                    out.append(dict(id="c09-%d" % k, deploy=d, ops=[block(3700), t0, tx(c, m, s, a)]))
                    k += 1
        # a role obtained in ONE contract gives no right in any other: after each transfer the new holder tries the
        # privileged operations of every contract
        cross = [("ifund", "remove_vamm", dict(vamm="vamm1")), ("ifund", "add_vamm", dict(vamm="vamm2")), ("ifund", "withdraw", dict(amount=10)),
                 ("ifund", "shutdown_vamms", {}), ("engine", "update_config", dict(liqfee=3)), ("engine", "set_pause", dict(pause=True)),
                 ("engine", "add_whitelist", dict(address="tr3")), ("vamm1", "set_open", dict(open=False)), ("vamm1", "update_config", dict(toll=1)),
                 ("vamm2", "set_open", dict(open=True)), ("vamm2", "update_owner", dict(owner="stranger")), ("fpool", "send_token", dict(amount=10, recipient="newowner")),
                 ("fpool", "remove_token", {}), ("feed", "append_price", dict(key="ETH", price=900, t=100000)), ("vamm1", "settle_funding", {}),
                 ("vamm1", "swap_input", dict(dir="add", amount=500, limit=0, over=False))]
        for (nm, t0, after) in transfers:
            for (c, m, a) in cross:
                out.append(dict(id="c09-%d" % k, deploy=d, ops=[block(3700), t0, tx(c, m, "newowner", a)]))
                k += 1
    return out

# ------------------------------------------------------------------------------------------------
def c14(tier, seed):
    out = []
    k = 0
    for coll in ("cw20", "native"):
        native = coll == "native"
        for paused in (False, True):
            for is_open in (True, False):
                for registered in (True, False):
                    gates = []
                    if not is_open:
                        gates.append(tx("vamm1", "set_open", "owner", dict(open=False)))
                    if not registered:
                        gates.append(tx("ifund", "remove_vamm", "owner", dict(vamm="vamm1")))
                    if paused:
                        gates.append(tx("engine", "set_pause", "owner", dict(pause=True)))
                    trials = [
                        opn("tr3", "buy", 500, 500, funds=500 if native else 0),
                        opn("tr2", "buy", 100, 1000, funds=100 if native else 0),
                        close("tr2"),
                        tx("engine", "deposit_margin", "tr2", dict(vamm="vamm1", amount=50), funds=50 if native else 0),
                        tx("engine", "withdraw_margin", "tr2", dict(vamm="vamm1", amount=5)),
                        liq("liq", "tr1"),
                        tx("engine", "pay_funding", "stranger", dict(vamm="vamm1")),
                        # ... and by the holder of the under-margined position itself
                        tx("engine", "deposit_margin", "tr1", dict(vamm="vamm1", amount=50), funds=50 if native else 0),
                        tx("engine", "deposit_margin", "tr1", dict(vamm="vamm1", amount=5000), funds=5000 if native else 0),
                        tx("engine", "withdraw_margin", "tr1", dict(vamm="vamm1", amount=1)),
                        close("tr1"),
                        opn("tr1", "buy", 100, 1000, funds=100 if native else 0),
                        opn("tr1", "sell", 100, 1000),
                        liq("tr1", "tr1"),
                    ]
                    for t in trials:
                        ops = underwater_prefix(native) + [block(3600)] + gates + [
                            query("ifund", "is_vamm", dict(vamm="vamm1")), t]
                        out.append(dict(id="c14-%d" % k, deploy=dep(coll, vamms=[{}, {}]), ops=ops))
                        k += 1
    # emergency shutdown from every subset of already-closed vAMMs (3 registered vAMMs)
    # ... at once, and long after the funding time has passed without a settlement, with positions open
    for coll in ("cw20",):
        for mask in range(8):
            pre = [tx("vamm%d" % (i + 1), "set_open", "owner", dict(open=False)) for i in range(3) if mask >> i & 1]
            for by in ("owner", "stranger"):
                for wait in (15, 7300, 90000):
                    if wait != 15 and by != "owner":
                        continue
                    ops = [block(15), opn("tr1", "buy", 500, 500, v="vamm2"), block(wait)] + pre + [
                           query("ifund", "get_all_vamm", {}), tx("ifund", "shutdown_vamms", by, {}),
                           query("ifund", "get_all_vamm_status", {})]
                    out.append(dict(id="c14-%d" % k, deploy=dep(coll, vamms=[{}, {}, {}]), ops=ops))
                    k += 1
    # registry: duplicates, capacity, removal order, membership queries
    rng = random.Random(seed)
    for j in range(40 if tier == "quick" else 300):
        ops = []
        for _ in range(rng.randint(3, 10)):
            v = "vamm%d" % rng.randint(1, 4)
            r = rng.random()
            if r < 0.45:
                ops.append(tx("ifund", "add_vamm", rng.choice(["owner", "owner", "owner", "stranger"]), dict(vamm=v)))
            elif r < 0.68:
                ops.append(tx("ifund", "remove_vamm", rng.choice(["owner", "owner", "stranger"]), dict(vamm=v)))
            elif r < 0.8:
                ops.append(tx(v, "set_open", "owner", dict(open=rng.random() < 0.4)))
            elif r < 0.9:
                ops.append(query("ifund", "is_vamm", dict(vamm=v)))
            else:
                ops.append(query("ifund", "get_all_vamm", {}))
        ops.append(query("ifund", "get_all_vamm", {}))
        for vv in ("vamm1", "vamm2", "vamm3", "vamm4"):
            ops.append(query("ifund", "is_vamm", dict(vamm=vv)))
        if j % 2 == 0:
            ops += [tx("ifund", "shutdown_vamms", "owner", {}), query("ifund", "get_all_vamm_status", {})]
        regs = [dict(registered=rng.random() < 0.5) for _ in range(4)]
        out.append(dict(id="c14-%d" % k, deploy=dep("cw20", vamms=regs), ops=ops))
        k += 1
    return out

# ------------------------------------------------------------------------------------------------
def c20(tier, seed):
    rng = random.Random(seed + 20)
    out = []
    k = 0
    bvals = [0, 1, 5, D - 1, D, D + 1, 2 * D]
    for j in range(120 if tier == "quick" else 1200):
        ops = []
        for _ in range(rng.randint(2, 7)):
            if rng.random() < 0.5:
                a = {}
                for f in rng.sample(["imr", "mmr", "plr", "liqfee"], rng.randint(1, 3)):
                    a[f] = rng.choice(bvals)
                ops.append(tx("engine", "update_config", rng.choice(["owner", "owner", "owner", "stranger"]), a))
            else:
                a = {}
                for f in rng.sample(["toll", "spread", "fluct", "twapint", "hcap", "oicap"], rng.randint(1, 3)):
                    a[f] = rng.choice([59, 60, 61, 3600, 604800, 604801, 0]) if f == "twapint" else rng.choice(bvals)
                ops.append(tx("vamm1", "update_config", rng.choice(["owner", "owner", "owner", "stranger"]), a))
        e = dict(imr=rng.choice([5, 10, 100]), mmr=rng.choice([0, 5]), liqfee=rng.choice([0, 5, 100]), plr=rng.choice([0, 25, 100]))
        out.append(dict(id="c20-%d" % k, deploy=dep("cw20", engine=e), ops=ops))
        k += 1
    # a vAMM whose funding period is longer than one week: the TWAP interval bound does not move with it
    for period in (1209600, 2592000):
        for tw in (604800, 604801, 1209600, 1209601, 2592000, 59, 60):
            out.append(dict(id="c20-%d" % k, deploy=dep("cw20", vamms=[dict(period=period)]),
                            ops=[tx("vamm1", "update_config", "owner", dict(twapint=tw)), query("vamm1", "config", {})]))
            k += 1
    # registration requires equal decimals
    for vdec in (1, 2, 3):
        out.append(dict(id="c20-%d" % k, deploy=dep("cw20", vamms=[{}, dict(dec=vdec, registered=False)]),
                        ops=[tx("ifund", "add_vamm", "owner", dict(vamm="vamm2")), query("ifund", "is_vamm", dict(vamm="vamm2"))]))
        k += 1
    # caps against changing caps and whitelist membership
    for j in range(60 if tier == "quick" else 500):
        native = rng.random() < 0.3
        hcap = rng.choice([0, 500, 1000, 2000])
        oicap = rng.choice([0, 10000, 30000, 60000])
        ops = [block(15)]
        for _ in range(rng.randint(4, 12)):
            r = rng.random()
            t = rng.choice(["tr1", "tr2", "tr3"])
            if r < 0.55:
                m = rng.choice([300, 1000, 1500, 2500, 4000])
                lev = rng.choice([1000, 1000, 1000, 100, 200, 500])
                side = rng.choice(["buy", "sell"])
                ops.append(opn(t, side, m, lev, funds=m if native else 0))
            elif r < 0.65:
                ops.append(close(t))
            elif r < 0.78:
                ops.append(tx("engine", rng.choice(["add_whitelist", "remove_whitelist"]), "owner", dict(address=t)))
            elif r < 0.9:
                ops.append(tx("vamm1", "update_config", "owner", rng.choice([dict(hcap=rng.choice([0, 500, 1500])), dict(oicap=rng.choice([0, 8000, 25000]))])))
            else:
                ops.append(block(15))
        out.append(dict(id="c20-%d" % k, deploy=dep("native" if native else "cw20", vamms=[dict(hcap=hcap, oicap=oicap)]), ops=ops))
        k += 1
    # reversals across the caps with unequal leverage on the two legs (the reversal releases more margin than the
    # new leg needs, or needs a top-up), for capped, uncapped and whitelisted traders
    for coll in ("cw20", "native"):
        native = coll == "native"
        for (hcap, oicap) in ((1000, 0), (2000, 0), (0, 20000), (1000, 20000)):
            for side in ("buy", "sell"):
                osd = "sell" if side == "buy" else "buy"
                for (m1, l1) in ((6000, 100), (3000, 200), (600, 1000)):
                    for (m2, l2) in ((3000, 1000), (1200, 1000), (6000, 200), (30000, 100)):
                        for wl in (False, True):
                            ops = [block(15)]
                            if wl:
                                ops.append(tx("engine", "add_whitelist", "owner", dict(address="tr1")))
                            ops += [opn("tr1", side, m1, l1, funds=m1 if native else 0), block(15),
                                    opn("tr1", osd, m2, l2, funds=m2 if native else 0),
                                    query("engine", "position", dict(vamm="vamm1", trader="tr1")), close("tr1")]
                            out.append(dict(id="c20-%d" % k, deploy=dep(coll, trader_bal=5000000, vamms=[dict(hcap=hcap, oicap=oicap)]), ops=ops))
                            k += 1
    return out

# ------------------------------------------------------------------------------------------------
def c08(tier, seed):
    """fault sweeps: the same transaction with a failure injected at call 2, 3, ... of its message tree"""
    out = []
    k = 0
    for coll in ("cw20", "native"):
        native = coll == "native"
        for (toll, spread) in ((0, 0), (10, 5)):
            vam = [dict(toll=toll, spread=spread)]
            F = lambda m, lev=1000: fee_funds(native, m, lev, toll, spread)
            feeonly = lambda m, lev=1000: (F(m, lev) - m) if native else 0
            cases = {
                "open-fresh": ([block(15)], sweep("engine", "open_position", "tr1", dict(vamm="vamm1", side="buy", margin=2000, leverage=1000, limit=0), F(2000))),
                "increase": ([block(15), opn("tr1", "buy", 2000, funds=F(2000))], sweep("engine", "open_position", "tr1", dict(vamm="vamm1", side="buy", margin=1000, leverage=500, limit=0), F(1000, 500))),
                "reduce": ([block(15), opn("tr1", "buy", 2000, funds=F(2000))], sweep("engine", "open_position", "tr1", dict(vamm="vamm1", side="sell", margin=500, leverage=1000, limit=0), feeonly(500))),
                "reverse-reopen": ([block(15), opn("tr1", "buy", 1000, funds=F(1000))], sweep("engine", "open_position", "tr1", dict(vamm="vamm1", side="sell", margin=3000, leverage=1000, limit=0), F(3000))),
                "close": ([block(15), opn("tr1", "sell", 2000, funds=F(2000)), block(15)], sweep("engine", "close_position", "tr1", dict(vamm="vamm1", limit=0))),
                "close-profit-short-vault": ([block(15), opn("tr1", "buy", 2000, funds=F(2000)), opn("tr2", "buy", 3000, funds=F(3000)), block(15), close("tr2"), ], sweep("engine", "close_position", "tr1", dict(vamm="vamm1", limit=0))),
                "deposit": ([block(15), opn("tr1", "buy", 2000, funds=F(2000))], sweep("engine", "deposit_margin", "tr1", dict(vamm="vamm1", amount=300), 300 if native else 0)),
                "withdraw": ([block(15), opn("tr1", "buy", 2000, 200, funds=F(2000, 200))], sweep("engine", "withdraw_margin", "tr1", dict(vamm="vamm1", amount=300))),
                "liquidate": (underwater_prefix(native, toll, spread), sweep("engine", "liquidate", "liq", dict(vamm="vamm1", trader="tr1", limit=0))),
                "liquidate-deep": (underwater_prefix(native, toll, spread, push=30000), sweep("engine", "liquidate", "liq", dict(vamm="vamm1", trader="tr1", limit=0))),
                "pay-funding": ([block(15), opn("tr1", "buy", 3000, funds=F(3000)), block(3700)], sweep("engine", "pay_funding", "stranger", dict(vamm="vamm1"))),
                "pay-funding-neg": ([block(15), opn("tr1", "sell", 3000, funds=F(3000)), block(3700)], sweep("engine", "pay_funding", "stranger", dict(vamm="vamm1"))),
                "pay-funding-fund-pays-long": ([block(15), opn("tr1", "buy", 3000, funds=F(3000)), tx("feed", "append_price", "owner", dict(key="ETH", price=2500, t=100015)), block(3700)], sweep("engine", "pay_funding", "stranger", dict(vamm="vamm1"))),
                "pay-funding-fund-pays-short": ([block(15), opn("tr1", "sell", 3000, funds=F(3000)), tx("feed", "append_price", "owner", dict(key="ETH", price=300, t=100015)), block(3700)], sweep("engine", "pay_funding", "stranger", dict(vamm="vamm1"))),
            }
            for nm, (pre, sw) in cases.items():
                for plr in ((0, 25) if nm.startswith("liquidate") else (0,)):
                    out.append(dict(id="c08-%s-%s-%d-%d" % (nm, coll, toll, plr),
                                    deploy=dep(coll, vamms=vam, engine=dict(plr=plr)), ops=pre + [sw, sw]))
                    k += 1
            # partial close through the fluctuation limit
            out.append(dict(id="c08-partial-close-%s-%d" % (coll, toll), deploy=dep(coll, vamms=[dict(toll=toll, spread=spread, fluct=2)], engine=dict(plr=25)),
                            ops=[block(15), opn("tr1", "buy", 150, funds=F(150)), block(15), opn("tr1", "buy", 150, funds=F(150)), block(15),
                                 sweep("engine", "close_position", "tr1", dict(vamm="vamm1", limit=0))]))
    # naturally occurring failures
    nat = [
        ("allowance", dep("cw20", allowance=0), [opn("tr1", "buy", 2000)]),
        ("small-allowance", dep("cw20", allowance=1500, vamms=[dict(toll=10, spread=10)]), [opn("tr1", "buy", 1000), opn("tr1", "buy", 1000)]),
        ("balance", dep("cw20", trader_bal=1000), [opn("tr1", "buy", 2000)]),
        ("closed", dep("cw20"), [opn("tr1", "buy", 2000), tx("vamm1", "set_open", "owner", dict(open=False)), close("tr1"), opn("tr1", "buy", 100)]),
        ("slippage", dep("cw20"), [opn("tr1", "buy", 2000, limit=999999), opn("tr1", "buy", 2000), close("tr1", limit=999999)]),
        ("native-short", dep("native"), [opn("tr1", "buy", 2000, funds=1999), opn("tr1", "buy", 2000, funds=2001), opn("tr1", "buy", 2000, funds=0)]),
        ("ifund-empty", dep("cw20", ifund_bal=0), underwater_prefix(False, 0, 0, 30000) + [liq("liq", "tr1")]),
        ("ifund-empty-funding", dep("cw20", ifund_bal=0), [opn("tr1", "buy", 3000), tx("feed", "append_price", "owner", dict(key="ETH", price=2500, t=100015)), block(3700), tx("engine", "pay_funding", "stranger", dict(vamm="vamm1"))]),
        ("ifund-small-funding", dep("native", ifund_bal=10), [opn("tr1", "sell", 3000, funds=3000), tx("feed", "append_price", "owner", dict(key="ETH", price=300, t=100015)), block(3700), tx("engine", "pay_funding", "stranger", dict(vamm="vamm1"))]),
    ]
    for nm, d, ops in nat:
        out.append(dict(id="c08-nat-" + nm, deploy=d, ops=[block(15)] + ops))
    return out

# ------------------------------------------------------------------------------------------------
def c16(tier, seed):
    """orderings of {trade by A, trade by B, liquidation of C by L, next block}"""
    import itertools
    out = []
    k = 0
    for coll in ("cw20", "native"):
        native = coll == "native"
        acts = {
            "A": opn("tr2", "sell", 300, 1000, funds=300 if native else 0),
            "A2": close("tr2"),
            "Ared": opn("tr2", "buy", 100, 1000, funds=0),
            "Bred": opn("tr3", "sell", 50, 1000, funds=0),
            "Brev": opn("tr3", "sell", 600, 1000, funds=600 if native else 0),
            "B": opn("tr3", "buy", 200, 1000, funds=200 if native else 0),
            "Lq": liq("liq", "tr1"),
            "Lopen": opn("liq", "buy", 200, 1000, funds=200 if native else 0),
            "Lclose": close("liq"),
            "C": opn("tr1", "buy", 100, 1000, funds=100 if native else 0),
            "Cclose": close("tr1"),
            "B2": close("tr3"),
            "N": block(15),
            "PF": tx("engine", "pay_funding", "stranger", dict(vamm="vamm1")),
        }
        seqs = set()
        names = list(acts)
        rng = random.Random(seed + 16)
        for _ in range(60 if tier == "quick" else 400):
            n = rng.randint(3, 7)
            seqs.add(tuple(rng.choice(names) for _ in range(n)))
        # reduce (position from an earlier block), liquidation, then act again -- in one block
        for tail in (("A2",), ("A",), ("Ared",), ("N", "A2")):
            seqs.add(("Ared", "Lq") + tail)
            seqs.add(("B", "N", "Bred", "Lq", "B") + tail)
            seqs.add(("B", "N", "Lq", "Brev") + tail)
            seqs.add(("B", "N", "Lq", "Brev", "B") + tail)
            seqs.add(("A", "Lq", "PF") + tail)
            seqs.add(("Ared", "PF", "Lq", "PF") + tail)
        for plr in (0, 25):
            for sq in sorted(seqs):
                if "Lq" not in sq:
                    continue
                ops = underwater_prefix(native) + ([block(3600)] if "PF" in sq else []) + [acts[a] for a in sq]
                out.append(dict(id="c16-%d" % k, deploy=dep(coll, engine=dict(plr=plr)), ops=ops))
                k += 1
        # the same orderings with the acting traders (and the liquidator) on the engine's whitelist: the whitelist
        # lifts the caps, not the one-action rule
        wl = [tx("engine", "add_whitelist", "owner", dict(address=a)) for a in ("tr2", "tr3", "liq")]
        for sq in sorted(seqs)[::3]:
            if "Lq" not in sq:
                continue
            ops = wl + underwater_prefix(native) + ([block(3600)] if "PF" in sq else []) + [acts[a] for a in sq]
            out.append(dict(id="c16-%d" % k, deploy=dep(coll, engine=dict(plr=25)), ops=ops))
            k += 1
        # the liquidated trader itself, and traders whose position was closed earlier in the block:
        # (partial) liquidation then close / open by the liquidated trader; close, liquidation, re-open
        for plr in (0, 25, 50):
            for push in (3200, 3600, 4000, 4400, 5000):
                for sq in (("Lq", "Cclose"), ("Lq", "C"), ("Lq", "N", "Cclose"), ("A", "N", "A2", "Lq", "A"),
                           ("A", "N", "A2", "Lq", "N", "A"), ("B", "N", "Lq", "B"), ("Lq", "Cclose", "C"),
                           ("B", "N", "B2", "Lq", "B"), ("B", "N", "B2", "Lq", "N", "B")):
                    ops = underwater_prefix(native, push=push) + [acts[a] for a in sq]
                    out.append(dict(id="c16-%d" % k, deploy=dep(coll, engine=dict(plr=plr, liqfee=1, mmr=8, imr=8)), ops=ops))
                    k += 1
    return out

# ------------------------------------------------------------------------------------------------
def c03(tier, seed):
    """fee pool payouts and stray third parties"""
    out = []
    for coll in ("cw20", "native"):
        native = coll == "native"
        f = lambda m, lev=1000: (m + (m * lev // 100) * 15 // 100) if native else 0
        for ptr in (tx("engine", "update_config", "owner", dict(ifund="stranger")),
                    tx("engine", "update_config", "owner", dict(ifund="sfx", fpool="tr3")),
                    tx("vamm1", "update_config", "owner", dict(ifund="stranger")),
                    tx("engine", "update_config", "owner", dict(fpool="stranger")),
                    tx("vamm1", "update_config", "owner", dict(feed="stranger"))):
            out.append(dict(id="c03-ptr-%s-%d" % (coll, len(out)), deploy=dep(coll, vamms=[dict(toll=5, spread=10)]),
                            ops=[block(15), opn("tr1", "buy", 2000, funds=f(2000)), ptr, opn("tr2", "sell", 1000, funds=f(1000)),
                                 opn("tr1", "sell", 500, funds=(f(500) - 500) if native else 0), close("tr1"), close("tr2")]))
    for coll in ("cw20", "native"):
        out.append(dict(id="c03-sendtoken-" + coll, deploy=dep(coll, fpool_bal=500),
                        ops=[tx("fpool", "send_token", "owner", dict(amount=100, recipient="tr3")),
                             tx("fpool", "send_token", "owner", dict(amount=1000, recipient="tr3")),
                             tx("fpool", "send_token", "stranger", dict(amount=10, recipient="stranger"))]))
    return out

# ------------------------------------------------------------------------------------------------
def c05(tier, seed):
    """leverage at and around 1 and 1/initial-margin-ratio (non-integer included), maintenance < initial"""
    out = []
    k = 0
    for coll in ("cw20", "native"):
        native = coll == "native"
        for (imr, mmr) in ((5, 5), (5, 3), (10, 5), (20, 3), (100, 0), (3, 3), (7, 2)):
            lim = D * D // imr if imr else 10 ** 6
            levs = sorted(set([1, D - 1, D, D + 1, 150, lim - 1, lim, lim + 1, lim + D // 2, lim + D - 1, lim + D, 2 * lim - 1]))
            for lev in levs:
                if lev <= 0:
                    continue
                for side in ("buy", "sell"):
                    for margin in (1000, 37):
                        ops = [block(15), opn("tr1", side, margin, lev, funds=margin if native else 0),
                               query("engine", "margin_ratio", dict(vamm="vamm1", trader="tr1"))]
                        out.append(dict(id="c05-%d" % k, deploy=dep(coll, engine=dict(imr=imr, mmr=mmr)), ops=ops))
                        k += 1
    # native deposits whose attached coins differ from the declared amount
    for (amt, fnd) in ((300, 300), (300, 301), (300, 299), (300, 600), (1, 2), (300, 0)):
        out.append(dict(id="c05dep-%d-%d" % (amt, fnd), deploy=dep("native"),
                        ops=[block(15), opn("tr1", "buy", 1000, 500, funds=1000),
                             tx("engine", "deposit_margin", "tr1", dict(vamm="vamm1", amount=amt), funds=fnd),
                             query("engine", "position", dict(vamm="vamm1", trader="tr1"))]))
    # withdrawals around the free-collateral and bad-debt boundaries
    rng = random.Random(seed + 5)
    for j in range(60 if tier == "quick" else 400):
        native = rng.random() < 0.3
        m = rng.choice([500, 1000, 2000])
        lev = rng.choice([200, 500, 1000])
        ops = [block(15), opn("tr1", rng.choice(["buy", "sell"]), m, lev, funds=m if native else 0),
               opn("tr2", rng.choice(["buy", "sell"]), rng.choice([300, 1500, 3000]), 1000, funds=0), block(rng.choice([15, 901]))]
        if native:
            ops[2]["funds"] = ops[2]["a"]["margin"]
        for _ in range(rng.randint(1, 4)):
            amt = rng.choice([1, m // 10, m // 2, m - 1, m, m + 1, rng.randint(1, m)])
            if rng.random() < 0.3:
                ops.append(tx("engine", "deposit_margin", "tr1", dict(vamm="vamm1", amount=amt), funds=amt if native else 0))
            else:
                ops.append(tx("engine", "withdraw_margin", "tr1", dict(vamm="vamm1", amount=amt)))
            ops.append(query("engine", "free_collateral", dict(vamm="vamm1", trader="tr1")))
        out.append(dict(id="c05w-%d" % j, deploy=dep("native" if native else "cw20", engine=dict(imr=rng.choice([5, 10]), mmr=5)), ops=ops))
    return out

def spot_after(trades, x=100000, y=10000):
    """rough constant-product price (scaled by D) after quote trades [(+/-quote)] -- input selection only"""
    k = x * y
    for q in trades:
        x += q
    return x * x * D // k

def c06(tier, seed):
    """liquidations across maintenance, partial ratio, fee (incl. zero / dust) and oracle spread"""
    out = []
    k = 0
    pushes = [3000, 4500, 5200, 6000, 8000, 12000, 30000] if tier == "quick" else [2500, 3000, 3500, 4000, 4500, 4800, 5000, 5200, 5500, 6000, 7000, 8000, 10000, 12000, 20000, 30000]
    for coll in ("cw20", "native"):
        native = coll == "native"
        for plr in (0, 25, 50, 100):
            for liqfee in (0, 1, 5, 10):
                for push in pushes:
                    for vside in ("buy", "sell"):
                        pside = "sell" if vside == "buy" else "buy"
                        ops = [block(15), opn("tr1", vside, 2500, 1000, funds=2500 if native else 0),
                               opn("tr2", pside, push // 10, 1000, funds=push // 10 if native else 0), block(901),
                               query("engine", "margin_ratio", dict(vamm="vamm1", trader="tr1")),
                               liq("liq", "tr1"), block(15), liq("tr3", "tr1"), close("tr1")]
                        out.append(dict(id="c06-%d" % k, deploy=dep(coll, engine=dict(plr=plr, liqfee=liqfee)), ops=ops))
                        k += 1
    # oracle spread sweep: victim under water at the vAMM price, oracle placed s% away from spot
    spreads = [-6000, -3500, -2000, -1200, -1100, -1050, -1000, -950, 900, 950, 1000, 1025, 1050, 1075, 1100, 1112, 1125, 1200, 2000, 3500, 6000, 9000]
    for vside in ("buy", "sell"):
        pside = "sell" if vside == "buy" else "buy"
        for push in (4500, 5200, 6000, 8000, 12000, 20000):
            sgn = 1 if vside == "buy" else -1
            sp = spot_after([sgn * 25000, -sgn * push])
            for s_bp in spreads:
                oracle = sp * 10000 // (10000 + s_bp)
                for feed in ("mock", "real"):
                    ops = [block(15), opn("tr1", vside, 2500, 1000), opn("tr2", pside, push // 10, 1000), block(901),
                           tx("feed", "append_price", "owner", dict(key="ETH", price=oracle, t=100916)),
                           query("vamm1", "is_over_spread_limit", {}),
                           query("engine", "margin_ratio", dict(vamm="vamm1", trader="tr1")),
                           liq("liq", "tr1")]
                    out.append(dict(id="c06s-%d" % k, deploy=dep("cw20", feed=feed, engine=dict(plr=0, liqfee=5)), ops=ops))
                    k += 1
    # dust positions: the penalty / fee amounts (or even the quote exchanged) round to zero although
    # the ratios are non-zero; the price collapses in steps (a short larger than the base reserve of a
    # snapshot inside the 15-minute window cannot be opened), each step by another trader, 901 s apart
    collapse = {1: [("tr2", 3000)], 2: [("tr2", 4500), ("tr3", 2500)], 3: [("tr2", 4500), ("tr3", 2500), ("liq", 1000)]}
    oracle_after = {1: 490, 2: 90, 3: 40}
    for plr in (0, 25, 100):
        for m in (8, 15, 25, 40):
            for depth in (1, 2, 3):
                for fin in ("liq", "close"):
                    ops = [block(901), opn("tr1", "buy", m, 200)]
                    for (who, pm) in collapse[depth]:
                        ops += [block(901), opn(who, "sell", pm, 1000)]
                    ops += [block(901), tx("feed", "append_price", "owner", dict(key="ETH", price=oracle_after[depth], t=100916)),
                            query("engine", "margin_ratio", dict(vamm="vamm1", trader="tr1"))]
                    ops += [liq("stranger", "tr1"), block(15), liq("stranger", "tr1")] if fin == "liq" else [close("tr1"), liq("stranger", "tr1")]
                    out.append(dict(id="c06d-%d" % k, deploy=dep("cw20", engine=dict(plr=plr, liqfee=5)), ops=ops))
                    k += 1
    # oracle moved inside the TWAP window: spot close to the *old* oracle price, far from the new one
    for vside in ("buy", "sell"):
        pside = "sell" if vside == "buy" else "buy"
        for push in (2000, 2200, 2400, 2700):
            for p2 in (800, 880, 940, 1080, 1160, 1240, 1320):
                for feed in ("real", "mock"):
                    ops = [block(15), opn("tr1", vside, 2500, 1000), opn("tr2", pside, push, 1000), block(901),
                           tx("feed", "append_price", "owner", dict(key="ETH", price=p2, t=100916)),
                           query("vamm1", "is_over_spread_limit", {}),
                           query("engine", "margin_ratio", dict(vamm="vamm1", trader="tr1")),
                           liq("liq", "tr1")]
                    out.append(dict(id="c06o-%d" % k, deploy=dep("cw20", feed=feed, engine=dict(plr=0, liqfee=5)), ops=ops))
                    k += 1
    return out

def c02lp(tier, seed):
    """pools priced below 1 with 1x..3x positions and a price sweep against them: the slice traded by a
    partial liquidation approaches / exceeds the whole open notional (F8), both sides, both collaterals"""
    out = []
    k = 0
    pushes = [7000, 9000, 10000, 10800, 11500, 12500] if tier == "quick" else [5000, 7000, 8000, 9000, 9500, 10000, 10380, 10800, 11500, 12500, 15000]
    for coll in ("cw20", "native"):
        native = coll == "native"
        for plr in (25, 50):
            for liqfee in (1, 5):
                for lev in (100, 200):
                    for push in pushes:
                        for vside in ("sell", "buy"):
                            pside = "buy" if vside == "sell" else "sell"
                            pm = push // 10 if vside == "sell" else push // 25
                            ops = [block(901), opn("tr1", vside, 100, lev, funds=100 if native else 0), block(901),
                                   opn("tr2", pside, pm, 1000, funds=pm if native else 0), block(901),
                                   query("engine", "margin_ratio", dict(vamm="vamm1", trader="tr1")),
                                   liq("liq", "tr1"), block(15), liq("tr3", "tr1"), close("tr1")]
                            out.append(dict(id="c02lp-%d" % k, deploy=dep(coll, engine=dict(plr=plr, liqfee=liqfee), trader_bal=500000,
                                            vamms=[dict(x=10000, y=100000)]), ops=ops))
                            k += 1
    return out

def c07(tier, seed):
    """vault drained by another trader's profit (prepaid bad debt outstanding, tiny vault) before a liquidation"""
    out = []
    k = 0
    for coll in ("cw20", "native"):
        native = coll == "native"
        for side in ("sell", "buy"):
            other = "buy" if side == "sell" else "sell"
            for small in (0, 2, 20, 200, 2000):
                for plr in (0, 25):
                    for ifb in (5000 * D, 100 * D):
                        ops = [block(15), opn("tr1", side, 2000, 1000, funds=2000 if native else 0),
                               opn("tr2", side, 2000, 1000, funds=2000 if native else 0), block(15), close("tr1")]
                        if small:
                            ops.append(opn("tr3", side, small, 1000, funds=small if native else 0))
                        ops += [block(901), query("engine", "margin_ratio", dict(vamm="vamm1", trader="tr2")),
                                liq("liq", "tr2"), block(15), liq("liq", "tr2")]
                        out.append(dict(id="c07-%d" % k, deploy=dep(coll, ifund_bal=ifb, engine=dict(plr=plr)), ops=ops))
                        k += 1
    return out

def c04(tier, seed):
    """large funding settlements (funding period one day, oracle far from the vAMM) before close / withdraw / reduce"""
    out = []
    k = 0
    day = 86400
    for coll in ("cw20", "native"):
        native = coll == "native"
        for side in ("buy", "sell"):
            for oracle in (300, 500, 800, 1200, 1600, 2500):
                for (m, lev) in ((2500, 1000), (1000, 200)):
                    for nset in (1, 2):
                        pre = [block(15), opn("tr1", side, m, lev, funds=m if native else 0),
                               tx("feed", "append_price", "owner", dict(key="ETH", price=oracle, t=100015))]
                        for _ in range(nset):
                            pre += [block(day + 1), tx("engine", "pay_funding", "stranger", dict(vamm="vamm1"))]
                        for last in ([close("tr1")], [tx("engine", "withdraw_margin", "tr1", dict(vamm="vamm1", amount=10))],
                                     [opn("tr1", "sell" if side == "buy" else "buy", 50, 1000, funds=0), close("tr1")],
                                     [query("engine", "margin_ratio", dict(vamm="vamm1", trader="tr1")), liq("liq", "tr1")]):
                            out.append(dict(id="c04-%d" % k, deploy=dep(coll, vamms=[dict(period=day)]), ops=pre + last))
                            k += 1
    return out

def c17(tier, seed):
    """a trader flattened by an opposite OpenPosition (the engine keeps a zero-size record remembering the
    old direction) opens again, on either side, with slippage limits on both sides of the executed amount;
    a trader who never traded sends the same message as control"""
    out = []
    k = 0
    for coll in ("cw20", "native"):
        native = coll == "native"
        for first in ("buy", "sell"):
            back = "sell" if first == "buy" else "buy"
            for m in (10000, 2500):
                for again in ("buy", "sell"):
                    for limit in (0, 1, 900, 1112, 1200, 100000):
                        ops = [block(15), opn("tr1", first, m, 100, funds=m if native else 0), block(15),
                               opn("tr1", back, m, 100, funds=0), query("engine", "position", dict(vamm="vamm1", trader="tr1")), block(15),
                               opn("tr2", again, 10000, 100, limit=limit, funds=10000 if native else 0),
                               opn("tr1", again, 10000, 100, limit=limit, funds=10000 if native else 0)]
                        out.append(dict(id="c17-%d" % k, deploy=dep(coll), ops=ops))
                        k += 1
    return out

def c17q(tier, seed):
    """OpenPosition with the slippage limit at the vAMM's own quote +/- 1, for a fresh trader, an increase, a reduce,
    and after the trader was flattened - by an opposite order of exactly the position's value, one unit more, one
    unit less (a reduce that rounds up to the whole size: zero size, dust notional) - with maintenance ratio 0 and 5 %"""
    out = []
    k = 0
    for coll in ("cw20", "native"):
        native = coll == "native"
        for mmr in (0, 5):
            for first in ("buy", "sell"):
                for delta in (0, 1, -1, None):
                    for again in ("buy", "sell"):
                        for off in (-1, 0, 1):
                            ops = [block(15), opn("tr1", first, 6000, 100, funds=6000 if native else 0), block(15)]
                            if delta is not None:
                                # the flattening order itself carries a limit one unit short of / equal to the quote
                                # (a failed attempt leaves everything as it was), then without limit
                                ops += [dict(k="flatten", s="tr1", v="vamm1", delta=delta, lim_off=(-1 if first == "buy" else 1)),
                                        dict(k="flatten", s="tr1", v="vamm1", delta=delta - 4, lim_off=(-1 if first == "buy" else 1)),
                                        dict(k="flatten", s="tr1", v="vamm1", delta=delta), query("engine", "position", dict(vamm="vamm1", trader="tr1")), block(15)]
                            ops += [dict(k="open_lim", s="tr1", v="vamm1", side=again, margin=1000, leverage=100, off=off, funds=1000 if native else 0),
                                    dict(k="open_lim", s="tr2", v="vamm1", side=again, margin=1000, leverage=100, off=off, funds=1000 if native else 0),
                                    close("tr1"), close("tr2")]
                            out.append(dict(id="c17q-%d" % k, deploy=dep(coll, engine=dict(mmr=mmr)), ops=ops))
                            k += 1
    return out

def c13rev(tier, seed):
    """reversals that re-open, across the relation between the fees, the old position's equity and the new
    margin (the native required-funds bookkeeping has one arm per ordering): cw20 scenarios for the twin runner"""
    out = []
    k = 0
    for (toll, spread) in ((0, 0), (10, 0), (5, 10), (1, 1)):
        for vside in ("buy", "sell"):
            pside = "sell" if vside == "buy" else "buy"
            for (vm, vlev) in ((12500, 200), (2000, 1000)):
                for push in (0, 4000, 8000, 12500):
                    for (rm, rlev) in ((4500, 1000), (3000, 1000), (9000, 500), (30000, 200), (2600, 1000), (60000, 100)):
                        ops = [block(15), opn("tr1", vside, vm, vlev)]
                        if push:
                            ops.append(opn("tr2", pside, push, 200))
                        ops += [block(15), opn("tr1", pside, rm, rlev), close("tr1"), close("tr2")]
                        out.append(dict(id="c13rev-%d" % k, deploy=dep("cw20", vamms=[dict(toll=toll, spread=spread)]), ops=ops))
                        k += 1
    return out

def c04r(tier, seed):
    """an opposite OpenPosition whose notional is just above the position's value: the reversal closes the
    whole position and drops the remainder (< leverage): healthy, under-water and funding-laden victims"""
    out = []
    k = 0
    for coll in ("cw20", "native"):
        native = coll == "native"
        for (toll, spread) in ((0, 0), (5, 10)):
            for vside in ("buy", "sell"):
                pside = "sell" if vside == "buy" else "buy"
                for push in (0, 6000, 20000):
                    # victim: 20.00 at 10x (notional 200.00); pusher at 1x moves the price against it
                    for rm in range(1100, 2400, 45):
                        ops = [block(15), opn("tr1", vside, 2000, 1000, funds=fee_funds(native, 2000, 1000, toll, spread))]
                        if push:
                            ops += [opn("tr2", pside, push, 100, funds=fee_funds(native, push, 100, toll, spread))]
                        ops += [block(15), close("tr1"), block(15),
                                opn("tr1", pside, rm, 1000, funds=fee_funds(native, rm, 1000, toll, spread) if native else 0),
                                query("engine", "position", dict(vamm="vamm1", trader="tr1")), close("tr2")]
                        out.append(dict(id="c04r-%d" % k, deploy=dep(coll, vamms=[dict(toll=toll, spread=spread)]), ops=ops))
                        k += 1
    return out

def c04p(tier, seed):
    """funding settlement, partial close through the price band, second settlement, whole close"""
    out = []
    k = 0
    day = 86400
    for coll in ("cw20", "native"):
        native = coll == "native"
        for side in ("buy", "sell"):
            for oracle in (960, 1000, 1100):
                for plr in (25, 50):
                    for m in (300, 800):
                        ops = [block(15), opn("tr1", side, m, 1000, funds=m if native else 0),
                               tx("vamm1", "update_config", "owner", dict(fluct=2)),
                               tx("feed", "append_price", "owner", dict(key="ETH", price=oracle, t=100015)),
                               block(day + 1), tx("engine", "pay_funding", "stranger", dict(vamm="vamm1")),
                               close("tr1"), query("engine", "position", dict(vamm="vamm1", trader="tr1")),
                               block(day + 1), tx("engine", "pay_funding", "stranger", dict(vamm="vamm1")),
                               close("tr1"), block(15), close("tr1"), block(15), close("tr1"),
                               tx("engine", "withdraw_margin", "tr1", dict(vamm="vamm1", amount=1))]
                        out.append(dict(id="c04p-%d" % k, deploy=dep(coll, vamms=[dict(period=day)], engine=dict(plr=plr)), ops=ops))
                        k += 1
    return out

def c06f(tier, seed):
    """funding accrued in the trader's favour (or against), then oracle divergence >= 10 %, then Liquidate"""
    out = []
    k = 0
    day = 86400
    for (vside, o1) in (("buy", 1800), ("buy", 1300), ("sell", 400), ("sell", 700)):
        pside = "sell" if vside == "buy" else "buy"
        for push in (2000, 3500, 5000):
            grid = range(600, 1500, 40) if vside == "buy" else range(700, 1900, 50)
            for p2 in grid:
                ops = [block(15), opn("tr1", vside, 2500, 1000),
                       tx("feed", "append_price", "owner", dict(key="ETH", price=o1, t=100015)),
                       block(day + 1), tx("engine", "pay_funding", "stranger", dict(vamm="vamm1")),
                       opn("tr2", pside, push, 1000), block(901),
                       tx("feed", "append_price", "owner", dict(key="ETH", price=p2, t=100015)),
                       query("vamm1", "is_over_spread_limit", {}),
                       query("engine", "margin_ratio", dict(vamm="vamm1", trader="tr1")),
                       liq("liq", "tr1")]
                out.append(dict(id="c06f-%d" % k, deploy=dep("cw20", vamms=[dict(period=day)]), ops=ops))
                k += 1
    return out

def c10(tier, seed):
    """address / key aliasing: an account whose address is a suffix of a trader's, malformed vAMM strings"""
    out = []
    k = 0
    for coll in ("cw20", "native"):
        native = coll == "native"
        base = [block(15), opn("tr1", "buy", 600, 1000, funds=600 if native else 0), opn("tr2", "sell", 300, 1000, funds=300 if native else 0)]
        attacks = [
            tx("engine", "deposit_margin", "sfx", dict(vamm="vamm1+co", amount=70), funds=70 if native else 0),
            tx("engine", "withdraw_margin", "sfx", dict(vamm="vamm1+co", amount=70)),
            tx("engine", "close_position", "sfx", dict(vamm="vamm1+co", limit=0)),
            tx("engine", "open_position", "sfx", dict(vamm="vamm1+co", side="buy", margin=100, leverage=1000, limit=0), funds=100 if native else 0),
            tx("engine", "deposit_margin", "sfx", dict(vamm="vamm1", amount=70), funds=70 if native else 0),
            tx("engine", "liquidate", "sfx", dict(vamm="vamm1+co", trader="sfx", limit=0)),
            tx("engine", "deposit_margin", "tr2", dict(vamm="vamm1+x", amount=70), funds=70 if native else 0),
        ]
        for a in attacks:
            out.append(dict(id="c10-%d" % k, deploy=dep(coll), ops=base + [a, query("engine", "position", dict(vamm="vamm1", trader="tr1"))]))
            k += 1
        # an account whose address is a trader's in upper case
        for m, a in (("close_position", dict(vamm="vamm1", limit=0)), ("withdraw_margin", dict(vamm="vamm1", amount=10)),
                     ("open_position", dict(vamm="vamm1", side="sell", margin=100, leverage=100, limit=0)),
                     ("deposit_margin", dict(vamm="vamm1", amount=10))):
            for who in ("upper:tr1", "upper:tr2"):
                out.append(dict(id="c10-%d" % k, deploy=dep(coll), ops=base + [tx("engine", m, who, a), query("engine", "position", dict(vamm="vamm1", trader="tr1"))]))
                k += 1
        # a Liquidate naming an address that differs from an under-margined trader's only by blanks / a suffix
        for plr in (0, 25):
            for alias in ("tr1+ ", "tr1+  ", "tr1+x", "tr1+\t"):
                ops = underwater_prefix(native) + [query("engine", "margin_ratio", dict(vamm="vamm1", trader="tr1")),
                                                  tx("engine", "liquidate", "liq", dict(vamm="vamm1", trader=alias, limit=0)),
                                                  query("engine", "position", dict(vamm="vamm1", trader="tr1")),
                                                  tx("engine", "liquidate", "liq", dict(vamm="vamm1+ ", trader="tr1", limit=0))]
                out.append(dict(id="c10-%d" % k, deploy=dep(coll, engine=dict(plr=plr)), ops=ops))
                k += 1
    return out


def c10adm(tier, seed):
    """administration while positions are live: every configuration / role / registry / gate transaction of every
    contract issued with three traders holding positions on two vAMMs, then each position queried through the engine
    and traded on by its owner (no administrator's transaction may alter anybody's position)"""
    out = []
    k = 0
    admin = [
        ("engine", "update_config", "owner", dict(ifund="stranger")), ("engine", "update_config", "owner", dict(fpool="stranger")),
        ("engine", "update_config", "owner", dict(ifund="sfx", fpool="tr3")), ("engine", "update_config", "owner", dict(owner="newowner")),
        ("engine", "update_config", "owner", dict(imr=20, mmr=10, plr=50, liqfee=3)), ("engine", "update_config", "owner", dict(ifund="ifund")),
        ("engine", "update_config", "owner", dict(ifund="tr1")), ("engine", "update_config", "owner", dict(fpool="tr1")),
        ("engine", "set_pause", "pauser", dict(pause=True)), ("engine", "update_pauser", "pauser", dict(pauser="newowner")),
        ("engine", "add_whitelist", "pauser", dict(address="tr1")), ("engine", "remove_whitelist", "pauser", dict(address="tr2")),
        ("vamm1", "update_config", "owner", dict(ifund="stranger")), ("vamm1", "update_config", "owner", dict(feed="stranger")),
        ("vamm1", "update_config", "owner", dict(toll=3, spread=4, fluct=20)), ("vamm1", "update_config", "owner", dict(engine="newowner")),
        ("vamm1", "update_config", "owner", dict(hcap=10, oicap=10)), ("vamm1", "update_owner", "owner", dict(owner="newowner")),
        ("vamm1", "set_open", "owner", dict(open=False)), ("vamm1", "set_open", "owner", dict(open=True)),
        ("ifund", "remove_vamm", "owner", dict(vamm="vamm1")), ("ifund", "add_vamm", "owner", dict(vamm="vamm1")),
        ("ifund", "shutdown_vamms", "owner", {}), ("ifund", "update_owner", "owner", dict(owner="newowner")),
        ("ifund", "withdraw", "owner", dict(amount=100)), ("fpool", "send_token", "owner", dict(amount=10, recipient="tr3")),
        ("fpool", "remove_token", "owner", {}), ("fpool", "update_owner", "owner", dict(owner="newowner")),
        ("feed", "append_price", "owner", dict(key="ETH", price=1200, t=100000)), ("feed", "update_owner", "owner", dict(owner="newowner")),
    ]
    for coll in ("cw20", "native"):
        native = coll == "native"
        f = lambda m: m if native else 0
        for (c, m, who, a) in admin:
            for undo in (False, True):
                ops = [block(15), tx("engine", "add_whitelist", "pauser", dict(address="tr2")),
                       opn("tr1", "buy", 600, 500, funds=f(600)), opn("tr2", "sell", 300, 500, funds=f(300)),
                       opn("tr3", "buy", 200, 300, funds=f(200)), opn("tr3", "sell", 150, 200, v="vamm2", funds=f(150)), block(15),
                       tx(c, m, who, a)]
                if undo:
                    # ... and the same transaction reverted by a second one where that is meaningful
                    if m == "update_config" and c == "engine" and ("ifund" in a or "fpool" in a):
                        ops += [block(15), tx("engine", "update_config", "owner", dict(ifund="ifund", fpool="fpool"))]
                    elif m == "set_pause":
                        ops += [block(15), tx("engine", "set_pause", "pauser", dict(pause=False))]
                    elif m == "set_open":
                        ops += [block(15), tx("vamm1", "set_open", "owner", dict(open=not a["open"]))]
                    elif m == "remove_vamm":
                        ops += [block(15), tx("ifund", "add_vamm", "owner", dict(vamm="vamm1"))]
                    else:
                        continue
                for t in ("tr1", "tr2", "tr3"):
                    ops += [query("engine", "position", dict(vamm="vamm1", trader=t))]
                ops += [query("engine", "position", dict(vamm="vamm2", trader="tr3")),
                        query("engine", "all_positions", dict(trader="tr3")), block(15),
                        opn("tr1", "sell", 100, 500, funds=0), tx("engine", "deposit_margin", "tr2", dict(vamm="vamm1", amount=50), funds=f(50)),
                        tx("engine", "withdraw_margin", "tr3", dict(vamm="vamm1", amount=10)), close("tr1"), close("tr2"), close("tr3"),
                        close("tr3", v="vamm2")]
                out.append(dict(id="c10adm-%d" % k, deploy=dep(coll, engine=dict(pauser="pauser"), fpool_bal=1000, vamms=[{}, {}]), ops=ops))
                k += 1
    return out

# ------------------------------------------------------------------------------------------------
# Sweeps (round 9): one fixed script that touches every operation, one dimension swept at a time
def cfgsweep(tier, seed):
    """boundary configurations: each deployment parameter in turn at its smallest / largest admissible value (and one
    unit inside), everything else standard, under one fixed trading script that touches every operation: opens both
    ways by three traders, an increase, a reduce, deposit, withdraw, a funding settlement with a premium, an adverse
    move, liquidation attempts by a third party in two blocks, closes (whole or partial), a re-open"""
    out = []
    k = 0
    week = 7 * 86400
    cfgs = []
    for fl in (1, 2, 50, 99, 100):
        cfgs.append(dict(vamms=[dict(fluct=fl)]))
    for plr in (1, 50, 99, 100):
        cfgs.append(dict(engine=dict(plr=plr)))
    for liqfee in (0, 1, 99, 100):
        cfgs.append(dict(engine=dict(liqfee=liqfee)))
        cfgs.append(dict(engine=dict(liqfee=liqfee, plr=25)))
    for (imr, mmr) in ((1, 1), (1, 0), (100, 100), (100, 1), (50, 50), (99, 98)):
        cfgs.append(dict(engine=dict(imr=imr, mmr=mmr)))
        cfgs.append(dict(engine=dict(imr=imr, mmr=mmr, plr=25)))
    for (toll, spread) in ((100, 0), (0, 100), (50, 50), (1, 1), (99, 1)):
        cfgs.append(dict(vamms=[dict(toll=toll, spread=spread)]))
    for period in (1, 59, 60, 1800, 86400, week, week + 1, 30 * 86400):
        cfgs.append(dict(vamms=[dict(period=period)]))
    for (period, off) in ((5400, -200), (9000, 150), (88200, -60), (129600, 40), (1800, -300), (3599, 250), (3601, -250)):
        cfgs.append(dict(vamms=[dict(period=period)], _off=off))
    for tw in (60, 61, 899, 901, 3600, week - 1, week):
        cfgs.append(dict(vamms=[dict(twapint=tw)]))
        cfgs.append(dict(vamms=[dict(twapint=tw, period=86400)]))
    for (x, y) in ((1000, 100000), (101, 102), (150, 101), (10000000, 101), (101, 10000000), (123457, 7919)):
        cfgs.append(dict(vamms=[dict(x=x, y=y)]))
    for (hcap, oicap) in ((1, 0), (0, 1), (100, 0), (0, 100), (100000, 100000)):
        cfgs.append(dict(vamms=[dict(hcap=hcap, oicap=oicap)]))
    for ib in (0, 1, 100):
        cfgs.append(dict(ifund_bal=ib))
        cfgs.append(dict(ifund_bal=ib, engine=dict(plr=25)))
    for tb in (3000, 100000000):
        cfgs.append(dict(trader_bal=tb))
    for coll in ("cw20", "native"):
        native = coll == "native"
        for c in cfgs:
            c = dict(c)
            poff = c.pop("_off", None)
            vc = (c.get("vamms") or [{}])[0]
            toll, spread = vc.get("toll", 0), vc.get("spread", 0)
            ff = lambda m, lev=300: fee_funds(native, m, lev, toll, spread)
            for (m, push, flip) in ((1000, 13500, False), (37, 14500, False), (1000, 16000, True)):
                L, S_ = ("sell", "buy") if flip else ("buy", "sell")
                ops = [block(15), opn("tr1", L, m, 300, funds=ff(m)), opn("tr2", S_, m * 2, 200, funds=ff(m * 2, 200)),
                       block(15), opn("tr3", L, m // 2 + 1, 500, funds=ff(m // 2 + 1, 500)),
                       opn("tr1", L, m // 4 + 1, 300, funds=ff(m // 4 + 1)), block(15),
                       opn("tr1", S_, m // 5 + 1, 300, funds=ff(m // 5 + 1) - (m // 5 + 1) if native else 0),
                       tx("engine", "deposit_margin", "tr2", dict(vamm="vamm1", amount=m // 10 + 1), funds=(m // 10 + 1) if native else 0),
                       tx("engine", "withdraw_margin", "tr2", dict(vamm="vamm1", amount=m // 20 + 1)),
                       block(vc.get("period", 3600) + 1 if vc.get("period", 3600) < 10 ** 6 else 3601),
                       dict(k="oracle_rel", v="vamm1", off=poff if poff is not None else (20 if flip else -20)), block(901),
                       tx("engine", "pay_funding", "stranger", dict(vamm="vamm1")),
                       query("engine", "margin_ratio", dict(vamm="vamm1", trader="tr1")),
                       opn("tr2", S_, push, 100, funds=ff(push, 100)), block(901),
                       dict(k="oracle_rel", v="vamm1", off=0, interval=1),
                       query("engine", "margin_ratio", dict(vamm="vamm1", trader="tr1")),
                       liq("liq", "tr1"), liq("liq", "tr3")] + [o for i in range(5) for o in (
                           opn("tr2", S_, 900, 100, funds=ff(900, 100)), block(901), liq("liq", "tr1"), liq("liq", "tr3"))] + [
                       block(15), liq("liq", "tr1"), liq("liq", "tr2"),
                       query("vamm1", "twap_price", dict(interval=900)),
                       close("tr1"), close("tr3"), block(15), close("tr2"), close("tr1"), close("tr3"), block(15), close("tr2"),
                       opn("tr1", S_, m, 100, funds=ff(m, 100)), close("tr1")]
                d = dep(coll, **c)
                out.append(dict(id="cfgsweep-%d" % k, deploy=d, ops=ops))
                k += 1
    return out

def timesweep(tier, seed):
    """the same full script (see cfgsweep) with one uniform gap between all transactions, swept over the boundaries of
    every clock in the system: same block, new block at the same second, 1 s, the 15-minute TWAP window -1/0/+1, the
    funding period -1/0/+1 and its half, a day, a week +1, 10^7 s; funding attempted after every step"""
    out = []
    k = 0
    for coll in ("cw20", "native"):
        native = coll == "native"
        ff = lambda m, lev=300: fee_funds(native, m, lev, 0, 0)
        for plr in (0, 25):
            for period in (3600, 86400):
                for gap in (None, 0, 1, 14, 899, 900, 901, period // 2 - 1, period // 2, period - 1, period, period + 1, 86400, 604801, 10 ** 7):
                    B = lambda: ([] if gap is None else [dict(k="block", dh=1, dt=gap)])
                    pf = tx("engine", "pay_funding", "stranger", dict(vamm="vamm1"))
                    steps = [opn("tr1", "buy", 1000, 300, funds=ff(1000)), opn("tr2", "sell", 2000, 200, funds=ff(2000, 200)),
                             dict(k="oracle_rel", v="vamm1", off=-15), pf,
                             opn("tr3", "buy", 501, 500, funds=ff(501, 500)), opn("tr1", "buy", 251, 300, funds=ff(251)), pf,
                             opn("tr1", "sell", 201, 300), tx("engine", "deposit_margin", "tr2", dict(vamm="vamm1", amount=101), funds=101 if native else 0),
                             tx("engine", "withdraw_margin", "tr2", dict(vamm="vamm1", amount=51)), pf,
                             query("vamm1", "twap_price", dict(interval=900)), query("vamm1", "twap_price", dict(interval=period)),
                             opn("tr2", "sell", 14500, 100, funds=ff(14500, 100)),
                             query("engine", "margin_ratio", dict(vamm="vamm1", trader="tr1")), liq("liq", "tr1"), liq("liq", "tr3"),
                             opn("tr2", "sell", 1500, 100, funds=ff(1500, 100)), liq("liq", "tr1"), liq("liq", "tr3"), pf,
                             opn("tr2", "sell", 1500, 100, funds=ff(1500, 100)), liq("liq", "tr1"), liq("liq", "tr3"), liq("liq", "tr1"),
                             close("tr1"), close("tr3"), pf, close("tr2"), close("tr2"), close("tr1"),
                             query("vamm1", "twap_price", dict(interval=900))]
                    ops = [block(15)]
                    for st in steps:
                        ops += [st] + (B() if st.get("k") == "tx" else [])
                    out.append(dict(id="timesweep-%d" % k, deploy=dep(coll, engine=dict(plr=plr), vamms=[dict(period=period, fluct=0)]), ops=ops))
                    k += 1
    return out

def amtsweep(tier, seed):
    """amounts at their extremes: margin / deposit / withdrawal / leverage of zero, one unit, the whole wallet, one unit
    more than the wallet, the whole free collateral; an allowance smaller than / equal to the amount; close limits of
    one unit and of 2^31; orders of one unit against a large position"""
    out = []
    k = 0
    wallet = 30000
    for coll in ("cw20", "native"):
        native = coll == "native"
        for (toll, spread) in ((0, 0), (5, 10)):
            ff = lambda m, lev=100: fee_funds(native, m, lev, toll, spread)
            for margin in (0, 1, 2, 99, 100, 101, wallet // 2, wallet - 1, wallet, wallet + 1):
                for lev in (1, 99, 100, 101, 1000, 2000):
                    for side in ("buy", "sell"):
                        osd = "sell" if side == "buy" else "buy"
                        ops = [block(15), opn("tr1", side, margin, lev, funds=min(ff(margin, lev), wallet)),
                               query("engine", "position", dict(vamm="vamm1", trader="tr1")), block(15),
                               tx("engine", "deposit_margin", "tr1", dict(vamm="vamm1", amount=0)),
                               tx("engine", "deposit_margin", "tr1", dict(vamm="vamm1", amount=1), funds=1 if native else 0),
                               tx("engine", "withdraw_margin", "tr1", dict(vamm="vamm1", amount=0)),
                               tx("engine", "withdraw_margin", "tr1", dict(vamm="vamm1", amount=1)),
                               opn("tr1", osd, 1, 100, funds=0), opn("tr1", side, 1, 100, funds=ff(1, 100)),
                               opn("tr1", osd, 0, 100), opn("tr1", side, 1, 0), block(15),
                               dict(k="withdraw_rel", s="tr1", v="vamm1", off=0),
                               close("tr1", limit=1 if side == "sell" else 2 ** 31 - 1), close("tr1", limit=0),
                               tx("engine", "withdraw_margin", "tr1", dict(vamm="vamm1", amount=1)), close("tr1")]
                        out.append(dict(id="amtsweep-%d" % k, deploy=dep(coll, trader_bal=wallet, vamms=[dict(toll=toll, spread=spread)]), ops=ops))
                        k += 1
    return out


def manyfund(tier, seed):
    """long funding histories: 30 / 70 settlements with alternating, non-zero premiums while positions are held (one
    opened before the first settlement, one after the 20th), then every charging operation; a liquidation after the
    history"""
    out = []
    k = 0
    for coll in ("cw20", "native"):
        native = coll == "native"
        for n in (30, 70):
            for tail in ("close", "withdraw", "reduce", "deposit", "liquidate"):
                ops = [block(15), opn("tr1", "buy", 2000, 200, funds=2000 if native else 0), opn("tr2", "sell", 900, 300, funds=900 if native else 0)]
                for i in range(n):
                    ops += [dict(k="oracle_rel", v="vamm1", off=(7 if i % 3 else -11) + i % 5), block(86401),
                            tx("engine", "pay_funding", "stranger", dict(vamm="vamm1"))]
                    if i == 20:
                        ops += [opn("tr3", "buy", 700, 200, funds=700 if native else 0)]
                ops += [query("engine", "position", dict(vamm="vamm1", trader="tr1")),
                        query("engine", "margin_ratio", dict(vamm="vamm1", trader="tr1"))]
                if tail == "close":
                    ops += [close("tr1"), close("tr3"), close("tr2")]
                elif tail == "withdraw":
                    ops += [tx("engine", "withdraw_margin", "tr1", dict(vamm="vamm1", amount=10)), dict(k="withdraw_rel", s="tr3", v="vamm1", off=0), close("tr1"), close("tr3"), close("tr2")]
                elif tail == "reduce":
                    ops += [opn("tr1", "sell", 500, 200), opn("tr3", "buy", 100, 200, funds=100 if native else 0), close("tr1"), close("tr3"), close("tr2")]
                elif tail == "deposit":
                    ops += [tx("engine", "deposit_margin", "tr1", dict(vamm="vamm1", amount=300), funds=300 if native else 0),
                            query("engine", "position", dict(vamm="vamm1", trader="tr1")), close("tr1"), close("tr3"), close("tr2")]
                else:
                    ops += [opn("tr2", "sell", 15000, 100, funds=15000 if native else 0), block(901), dict(k="oracle_rel", v="vamm1", off=0, interval=1),
                            liq("liq", "tr1"), liq("liq", "tr3"), opn("tr2", "sell", 2500, 100, funds=2500 if native else 0), block(901),
                            liq("liq", "tr1"), liq("liq", "tr3"), block(15), close("tr1"), close("tr3"), close("tr2")]
                out.append(dict(id="manyfund-%d" % k, deploy=dep(coll, engine=dict(plr=0), vamms=[dict(period=86400)]), ops=ops))
                k += 1
    return out

def emptywallet(tier, seed):
    """cw20 wallets emptied between two actions: the trader moves the whole wallet (or all but one unit / all but the
    fee) to another account, then closes / reduces / reverses / withdraws with fees on - whatever the protocol owes or
    charges is settled out of the position, not out of what the wallet happens to hold"""
    out = []
    k = 0
    for (toll, spread) in ((5, 10), (2, 3), (10, 0), (0, 10), (0, 0)):
        for side in ("buy", "sell"):
            osd = "sell" if side == "buy" else "buy"
            for keep in (0, 1, 30, 500):
                for tail in ("close", "reduce", "reverse", "withdraw", "liquidated"):
                    ops = [block(15), opn("tr1", side, 6000, 1000), opn("tr2", osd, 1000, 500), block(15),
                           dict(k="transfer_all", s="tr1", to="stranger", keep=keep)]
                    if tail == "close":
                        ops += [close("tr1")]
                    elif tail == "reduce":
                        ops += [opn("tr1", osd, 2000, 1000), close("tr1")]
                    elif tail == "reverse":
                        ops += [dict(k="flatten", s="tr1", v="vamm1", delta=0), opn("tr1", osd, 70000, 1000), close("tr1")]
                    elif tail == "withdraw":
                        ops += [tx("engine", "withdraw_margin", "tr1", dict(vamm="vamm1", amount=100)), close("tr1")]
                    else:
                        ops += [opn("tr2", osd, 5500, 1000), block(901), liq("liq", "tr1"), close("tr1")]
                    ops += [close("tr2")]
                    out.append(dict(id="emptywallet-%d" % k, deploy=dep("cw20", vamms=[dict(toll=toll, spread=spread)]), ops=ops))
                    k += 1
    return out

def flatbook(tier, seed):
    """a book whose NET position is exactly zero - all positions closed, or live longs and shorts that offset exactly -
    after trades that left rounding residue in the reserves and after a settlement with a premium: funding settled by
    a keeper in that state, then every trader's position queried and traded on, and the book brought flat again"""
    out = []
    k = 0
    day = 86400
    for coll in ("cw20", "native"):
        native = coll == "native"
        for live in (True, False):
            for (q1, q3) in ((3700, 1300), (6000, 777), (2500, 2500), (1000, 4000), (5000, 1000), (8000, 3333)):
                for off in (-15, 15):
                    f = lambda m: m if native else 0
                    # tr3 makes the market non-flat, a settlement with a premium is recorded, then tr1 and tr2 take exactly
                    # offsetting positions (the same quote amount in and out in one block) and tr3 leaves
                    ops = [block(15), opn("tr3", "sell", q3, 100, funds=f(q3)),
                           dict(k="oracle_rel", v="vamm1", off=off), block(day),
                           tx("engine", "pay_funding", "stranger", dict(vamm="vamm1")), block(15),
                           opn("tr1", "buy", q1, 100, funds=f(q1)), opn("tr2", "sell", q1, 100, funds=f(q1)), block(15)]
                    if live:
                        ops += [close("tr3"), dict(k="offset", s="tr2", v="vamm1")]
                    else:
                        ops += [close("tr1"), close("tr2"), close("tr3")]
                    ops += [query("vamm1", "state", {}), dict(k="oracle_rel", v="vamm1", off=off), block(day),
                            tx("engine", "pay_funding", "stranger", dict(vamm="vamm1")), query("vamm1", "state", {})]
                    for t in ("tr1", "tr2", "tr3"):
                        ops += [query("engine", "position", dict(vamm="vamm1", trader=t))]
                    ops += [block(15), opn("tr3", "buy", 2500, 100, funds=f(2500)), opn("tr3", "sell", 2500, 100), block(15),
                            opn("tr1", "sell", 333, 100, funds=f(333)), close("tr1"), close("tr2"), close("tr3"), query("vamm1", "state", {}),
                            block(day), tx("engine", "pay_funding", "stranger", dict(vamm="vamm1")),
                            opn("tr3", "buy", 1234, 100, funds=f(1234)), close("tr3"), query("vamm1", "state", {})]
                    out.append(dict(id="flatbook-%d" % k, deploy=dep(coll, vamms=[dict(period=day)]), ops=ops))
                    k += 1
    return out

def c15red(tier, seed):
    """orders that REDUCE a position (and closes, reversals) landing just inside / just beyond the band edge, by
    ordinary and by whitelisted traders"""
    out = []
    k = 0
    for wl in (False, True):
        for fl in (5, 8):
            for side in ("buy", "sell"):
                osd = "sell" if side == "buy" else "buy"
                edge = 2500 if fl == 5 else 4000
                for d in (-400, -150, -40, 0, 40, 150, 400, 1500):
                    for kind in ("reduce", "reverse", "close"):
                        ops = [block(15)]
                        if wl:
                            ops += [tx("engine", "add_whitelist", "owner", dict(address="tr1"))]
                        ops += [opn("tr1", side, 3000, 100), block(15), opn("tr1", side, 3000, 100), block(15), opn("tr1", side, 3000, 100), block(15)]
                        if kind == "reduce":
                            ops += [opn("tr1", osd, edge + d, 100)]
                        elif kind == "reverse":
                            ops += [opn("tr2", side, 3000, 100), block(15), opn("tr1", osd, 9000 + edge + d, 100)]
                        else:
                            ops += [opn("tr2", osd, edge + d, 100), close("tr1")]
                        ops += [query("vamm1", "spot_price", {}), block(15), close("tr1"), close("tr2")]
                        out.append(dict(id="c15red-%d" % k, deploy=dep("cw20", trader_bal=5000000, engine=dict(plr=25), vamms=[dict(fluct=fl)]), ops=ops))
                        k += 1
    return out

def c18sub(tier, seed):
    """block times with sub-second parts: a constant and a slowly moving price over many blocks a few (fractional)
    seconds apart, then TWAPs over intervals inside the history"""
    out = []
    for j, (n, move) in enumerate(((14, False), (14, True), (40, True))):
        ops = [dict(k="block", dh=1, dt=15, dns=0), tx("vamm1", "swap_input", "drv", dict(dir="add", amount=500, limit=0, over=False))]
        for i in range(n):
            ops.append(dict(k="block", dh=1, dt=4 + i % 3, dns=(137000000 * (i + 3)) % 1000000000))
            if move:
                ops.append(tx("vamm1", "swap_input", "drv", dict(dir="add" if i % 4 < 2 else "rem", amount=20 + i, limit=0, over=False)))
            for iv in (5, 8, 13, 30, 60):
                ops.append(query("vamm1", "twap_price", dict(interval=iv)))
        for g in (61, 600, 3600):
            ops.append(dict(k="block", dh=1, dt=g, dns=333333333))
            for iv in (8, 60, 300, 900):
                ops.append(query("vamm1", "twap_price", dict(interval=iv)))
        out.append(dict(id="c18sub-%d" % j, deploy=dep("cw20", direct=True), ops=ops))
    return out

def c13fund(tier, seed):
    """twin scenarios in which the position has received / paid funding before its owner reduces, flattens exactly,
    reverses beyond it or closes (the amount owed nets the funding of the closed leg)"""
    out = []
    k = 0
    day = 86400
    for (toll, spread) in ((0, 0), (1, 1)):
        for side in ("buy", "sell"):
            osd = "sell" if side == "buy" else "buy"
            for off in (-40, 40):
                for (rm, rlev) in ((1000, 1000), (8000, 1000), (30000, 200), (2000, 500)):
                    ops = [block(15), opn("tr1", side, 2000, 1000), opn("tr2", osd, 500, 500),
                           dict(k="oracle_rel", v="vamm1", off=off), block(day),
                           tx("engine", "pay_funding", "stranger", dict(vamm="vamm1")), block(15),
                           opn("tr1", osd, rm, rlev), opn("tr2", side, 3000, 200), close("tr1"), close("tr2")]
                    out.append(dict(id="c13fund-%d" % k, deploy=dep("cw20", vamms=[dict(toll=toll, spread=spread, period=day)]), ops=ops))
                    k += 1
    return out

def wl_all(scns, who=("tr1", "tr2", "tr3")):
    """the same histories with every trader on the engine's whitelist from the start"""
    out = []
    for s in scns:
        ops = list(s["ops"])
        ins = [tx("engine", "add_whitelist", "owner", dict(address=t)) for t in who]
        out.append(dict(id="wl-" + s["id"], deploy=s["deploy"], ops=ops[:1] + ins + ops[1:]))
    return out

def combo(tier, seed):
    """state class x operation: a seeded sample of the product of independent state attributes - collateral, side of
    the position, funding owed / earned / none, health (healthy / under-margined / under water), wallet (normal /
    emptied), whitelisted or not, gate (none / paused / closed / unregistered), fees, partial-liquidation ratio,
    price band - each reached by its own prefix step, then ONE operation out of every kind by the position's owner or
    a third party, then the gates lifted and every position closed (which exposes a record corrupted earlier)"""
    rng = random.Random(seed * 1000003 + 17)
    out = []
    n = 700 if tier == "quick" else 6000
    day = 86400
    OPS = ("open_same", "open_opp_small", "open_opp_big", "close", "deposit", "withdraw", "liq_other", "liq_self", "pay_funding", "close_limit")
    for k in range(n):
        coll = rng.choice(("cw20", "native"))
        native = coll == "native"
        side = rng.choice(("buy", "sell"))
        osd = "sell" if side == "buy" else "buy"
        funding = rng.choice(("none", "owed", "earned"))
        health = rng.choice(("healthy", "under", "water"))
        wallet = rng.choice(("normal", "normal", "emptied")) if not native else "normal"
        wl = rng.choice(("none", "none", "tr1", "tr3", "both"))
        pre = rng.choice(("none", "none", "tr3_trade", "liq_trade"))
        lev2 = rng.choice((100, 150, 250, 1000))
        liqr = rng.choice(("liq", "liq", "tr2", "stranger2"))
        gate = rng.choice(("none", "none", "paused", "closed", "unregistered"))
        toll, spread = rng.choice(((0, 0), (5, 10), (1, 0)))
        plr = rng.choice((0, 25, 100))
        fluct = rng.choice((0, 0, 5))
        opk = OPS[k % len(OPS)]
        ff = lambda m, lev=1000: fee_funds(native, m, lev, toll, spread)
        ops = [block(15)]
        if wl in ("tr1", "both"):
            ops += [tx("engine", "add_whitelist", "owner", dict(address="tr1"))]
        if wl in ("tr3", "both"):
            ops += [tx("engine", "add_whitelist", "owner", dict(address="tr3"))]
        if liqr == "stranger2":
            liqr = "tr3"
        ops += [opn("tr1", side, 2500, 1000, funds=ff(2500)), opn("tr3", side, 300, 300, funds=ff(300, 300))]
        if funding != "none":
            # longs owe when the vAMM TWAP is above the oracle TWAP
            pays_long = funding == "owed"
            off = (-30 if pays_long else 30) if side == "buy" else (30 if pays_long else -30)
            ops += [block(901), dict(k="oracle_rel", v="vamm1", off=off), block(day), tx("engine", "pay_funding", "stranger", dict(vamm="vamm1"))]
        if health != "healthy":
            push = rng.choice((3300, 3700, 4100, 4500)) if health == "under" else rng.choice((7000, 9000))
            if fluct:
                # the band admits 5 % per block: walk there in steps
                for i in range(0, push, 2000):
                    ops += [opn("tr2", osd, min(2000, push - i), 100, funds=ff(min(2000, push - i), 100)), block(15)]
            else:
                ops += [opn("tr2", osd, push, 100, funds=ff(push, 100))]
            ops += [block(901), dict(k="oracle_rel", v="vamm1", off=0, interval=1)]
        else:
            ops += [opn("tr2", osd, 500, 100, funds=ff(500, 100)), block(15)]
        if wallet == "emptied":
            ops += [dict(k="transfer_all", s="tr1", to="stranger", keep=rng.choice((0, 1, 40)))]
        if gate == "paused":
            ops += [tx("engine", "set_pause", "owner", dict(pause=True))]
        elif gate == "closed":
            ops += [tx("vamm1", "set_open", "owner", dict(open=False))]
        elif gate == "unregistered":
            ops += [tx("ifund", "remove_vamm", "owner", dict(vamm="vamm1"))]
        ops += [query("engine", "margin_ratio", dict(vamm="vamm1", trader="tr1"))]
        if pre == "tr3_trade":
            ops += [opn("tr3", side, 120, 200, funds=ff(120, 200))]
        elif pre == "liq_trade":
            ops += [opn("liq", osd, 150, 200, funds=ff(150, 200))]
        if opk == "open_same":
            ops += [opn("tr1", side, 200, 500, funds=ff(200, 500))]
        elif opk == "open_opp_small":
            ops += [opn("tr1", osd, rng.choice((100, 1000, 2400)), lev2)]
        elif opk == "open_opp_big":
            ops += [opn("tr1", osd, 4000 * 1000 // max(lev2, 150), max(lev2, 150), funds=ff(4000 * 1000 // max(lev2, 150), max(lev2, 150)))]
        elif opk == "close":
            ops += [close("tr1")]
        elif opk == "close_limit":
            ops += [close("tr1", limit=1 if side == "buy" else 2 ** 30)]
        elif opk == "deposit":
            a = rng.choice((1, 50, 3000))
            ops += [tx("engine", "deposit_margin", "tr1", dict(vamm="vamm1", amount=a), funds=a if native else 0)]
        elif opk == "withdraw":
            ops += [tx("engine", "withdraw_margin", "tr1", dict(vamm="vamm1", amount=rng.choice((1, 100))))]
        elif opk == "liq_other":
            ops += [liq(liqr, "tr1"), liq("tr3", "tr1")]
        elif opk == "liq_self":
            ops += [liq("tr1", "tr1")]
        else:
            ops += [block(day), tx("engine", "pay_funding", "stranger", dict(vamm="vamm1"))]
        ops += [query("engine", "position", dict(vamm="vamm1", trader="tr1"))]
        # a second action in the same block, by the same account or by somebody else
        follow = rng.choice(("none", "none", "tr1_same", "tr1_close", "liq_open", "tr3_same", "tr3_close", "liq_again"))
        if follow == "tr1_same":
            ops += [opn("tr1", side, 150, 500, funds=ff(150, 500))]
        elif follow == "tr1_close":
            ops += [close("tr1")]
        elif follow == "liq_open":
            ops += [opn("liq", osd, 200, 200, funds=ff(200, 200)), opn("liq", osd, 100, 200, funds=ff(100, 200))]
        elif follow == "tr3_same":
            ops += [opn("tr3", side, 100, 300, funds=ff(100, 300))]
        elif follow == "tr3_close":
            ops += [close("tr3")]
        elif follow == "liq_again":
            ops += [liq("liq", "tr1"), liq("liq", "tr3")]
        ops += [block(15)]
        if gate == "paused":
            ops += [tx("engine", "set_pause", "owner", dict(pause=False))]
        elif gate == "closed":
            ops += [tx("vamm1", "set_open", "owner", dict(open=True))]
        elif gate == "unregistered":
            ops += [tx("ifund", "add_vamm", "owner", dict(vamm="vamm1"))]
        ops += [liq("liq", "tr1"), block(15), close("tr1"), close("tr3"), close("tr2"), close("liq")]
        out.append(dict(id="combo-%d" % k, deploy=dep(coll, engine=dict(plr=plr), vamms=[dict(toll=toll, spread=spread, fluct=fluct, period=day)]), ops=ops))
    return out

def liqseq(tier, seed):
    """sequences of liquidations by DIFFERENT liquidators in which an earlier one pays no fee (fee ratio zero at the
    time, or a dust position whose fee rounds to zero) and a later one does: whole and partial, same block and later
    blocks, fee ratio raised in between"""
    out = []
    k = 0
    for coll in ("cw20", "native"):
        native = coll == "native"
        f = lambda m: m if native else 0
        for plr in (0, 25):
            for side in ("buy", "sell"):
                pside = "sell" if side == "buy" else "buy"
                for how in ("zero_ratio", "dust"):
                    for gap in (0, 15):
                        liqfee0 = 0 if how == "zero_ratio" else 2
                        small = 1500 if how == "zero_ratio" else 12
                        ops = [block(15), opn("tr1", side, small, 1000 if how == "zero_ratio" else 200, funds=f(small)),
                               opn("tr3", side, 1200, 1000, funds=f(1200)),
                               opn("tr2", pside, 5600 if how == "zero_ratio" else 20000, 1000 if how == "zero_ratio" else 100, funds=f(5600 if how == "zero_ratio" else 20000)), block(901),
                               dict(k="oracle_rel", v="vamm1", off=0, interval=60),
                               query("engine", "margin_ratio", dict(vamm="vamm1", trader="tr1")),
                               liq("liq", "tr1"), query("engine", "position", dict(vamm="vamm1", trader="tr1"))]
                        if how == "zero_ratio":
                            ops += [tx("engine", "update_config", "owner", dict(liqfee=5))]
                        if gap:
                            ops += [block(gap)]
                        ops += [query("engine", "margin_ratio", dict(vamm="vamm1", trader="tr3")),
                                liq("sfx", "tr3"), liq("stranger", "tr3"), block(15), liq("sfx", "tr1"), liq("liq", "tr3"),
                                close("tr1"), close("tr3"), close("tr2")]
                        out.append(dict(id="liqseq-%d" % k, deploy=dep(coll, trader_bal=5000000, engine=dict(plr=plr, liqfee=liqfee0, imr=10, mmr=5)), ops=ops))
                        k += 1
    return out

# ------------------------------------------------------------------------------------------------
# Round-4 families: states and inputs that no earlier generator reached
def zsr(tier, seed):
    """zero-size position records (a trader flattened by an opposite OpenPosition of exactly the position's
    value; the engine keeps the record) and everything that can follow: re-opening on either side,
    a price push by another trader, close / liquidate / margin moves, the same inside a liquidation block,
    a third party's liquidation next to the record"""
    out = []
    k = 0
    for coll in ("cw20", "native"):
        native = coll == "native"
        for (toll, spread) in ((0, 0), (5, 10)):
            ff = lambda m, lev: fee_funds(native, m, lev, toll, spread)
            fo = lambda m, lev: (fee_funds(native, m, lev, toll, spread) - m) if native else 0   # fees only
            for first in ("buy", "sell"):
                back = "sell" if first == "buy" else "buy"
                for again in ("buy", "sell"):
                    other = "sell" if again == "buy" else "buy"
                    for (m2, lev2) in ((5000, 200), (1000, 1000)):
                        for push in (0, 3000, 9000):
                            for pdir in ("fav", "adv"):
                                if push == 0 and pdir == "adv":
                                    continue
                                pside = again if pdir == "fav" else other
                                base = [block(15), opn("tr1", first, 2000, 100, funds=ff(2000, 100)), block(15),
                                        opn("tr1", back, 2000, 100, funds=fo(2000, 100)),            # flat, record kept
                                        query("engine", "position", dict(vamm="vamm1", trader="tr1")), block(15),
                                        opn("tr1", again, m2, lev2, funds=ff(m2, lev2))]
                                if push:
                                    base += [opn("tr2", pside, push, 200, funds=ff(push, 200))]
                                base += [block(1200), query("engine", "margin_ratio", dict(vamm="vamm1", trader="tr1"))]
                                tails = [
                                    [liq("liq", "tr1"), close("tr1"), close("tr2")],
                                    [close("tr1"), close("tr2")],
                                    [tx("engine", "withdraw_margin", "tr1", dict(vamm="vamm1", amount=100)), opn("tr1", other, 300, 1000, funds=fo(300, 1000)), close("tr1")],
                                    [opn("tr1", other, m2 * 2, lev2, funds=ff(m2 * 2, lev2)), close("tr1"), close("tr2")],
                                ]
                                for tl in tails:
                                    out.append(dict(id="zsr-%d" % k, deploy=dep(coll, vamms=[dict(toll=toll, spread=spread)]), ops=base + tl))
                                    k += 1
    return out

def zsrliq(tier, seed):
    """a zero-size record next to someone else's liquidation, and its owner acting in that block"""
    out = []
    k = 0
    for coll in ("cw20", "native"):
        native = coll == "native"
        for plr in (0, 25, 100):
            for order in range(4):
                flat = [opn("tr3", "buy", 1000, 100, funds=1000 if native else 0), opn("tr3", "sell", 1000, 100)]
                pre = underwater_prefix(native)
                l = liq("liq", "tr1")
                after = [query("engine", "position", dict(vamm="vamm1", trader="tr3")),
                         opn("tr3", "buy", 500, 200, funds=500 if native else 0),
                         query("engine", "position", dict(vamm="vamm1", trader="tr3")), block(15),
                         opn("tr3", "sell", 500, 200, funds=500 if native else 0)]
                if order == 0:
                    ops = [block(15)] + flat + pre + [l] + after                 # flattened in an earlier block
                elif order == 1:
                    ops = pre + flat + [l] + after                              # flattened, then liquidation, same block
                elif order == 2:
                    ops = pre + [l] + flat + after                              # liquidation first
                else:
                    ops = pre + flat + [l, close("tr3")] + after
                out.append(dict(id="zsrliq-%d" % k, deploy=dep(coll, engine=dict(plr=plr)), ops=ops))
                k += 1
    return out

def attached(tier, seed):
    """native collateral: coins attached to calls that take no payment (close, withdraw, liquidate, funding),
    and more / fewer coins than an open needs"""
    out = []
    k = 0
    for plr in (0, 25):
        for extra in (1, 150):
            pre = underwater_prefix(True)
            trials = [
                [tx("engine", "liquidate", "liq", dict(vamm="vamm1", trader="tr1", limit=0), funds=extra)],
                [tx("engine", "liquidate", "tr2", dict(vamm="vamm1", trader="tr1", limit=0), funds=extra)],
                [tx("engine", "close_position", "tr2", dict(vamm="vamm1", limit=0), funds=extra)],
                [tx("engine", "withdraw_margin", "tr2", dict(vamm="vamm1", amount=5), funds=extra)],
                [block(3600), tx("engine", "pay_funding", "stranger", dict(vamm="vamm1"), funds=0),
                 tx("engine", "pay_funding", "liq", dict(vamm="vamm1"), funds=extra)],
                [opn("tr3", "buy", 500, 500, funds=500 + extra)],
                [opn("tr3", "buy", 500, 500, funds=500 - 1)],
                [tx("engine", "deposit_margin", "tr2", dict(vamm="vamm1", amount=50), funds=50 + extra)],
            ]
            for t in trials:
                out.append(dict(id="att-%d" % k, deploy=dep("native", engine=dict(plr=plr)), ops=pre + t + [close("tr2")]))
                k += 1
    return out

def fundzero(tier, seed):
    """funding settlements that cancel: the cumulative premium fraction returns to exactly 0 while positions
    hold a non-zero checkpoint; then every way of settling a position"""
    out = []
    k = 0
    for coll in ("cw20", "native"):
        native = coll == "native"
        for side in ("buy", "sell"):
            for off in (10, 40):
                for mid in ("withdraw", "deposit", "none"):
                    for tail in ("close", "withdraw", "liquidate", "reduce", "reverse"):
                        # tr1 holds the position under test, tr2 balances the book so that the TWAP stays put
                        day = 86400
                        ops = [block(15), opn("tr1", side, 3000, 200, funds=3000 if native else 0), block(3601),
                               query("vamm1", "twap_price", dict(interval=3600)),
                               dict(k="oracle_rel", v="vamm1", off=off), block(day),
                               tx("engine", "pay_funding", "stranger", dict(vamm="vamm1"))]
                        if mid == "withdraw":
                            ops.append(tx("engine", "withdraw_margin", "tr1", dict(vamm="vamm1", amount=10)))
                        elif mid == "deposit":
                            ops.append(tx("engine", "deposit_margin", "tr1", dict(vamm="vamm1", amount=10), funds=10 if native else 0))
                        ops += [dict(k="oracle_rel", v="vamm1", off=-off), block(day),
                                tx("engine", "pay_funding", "stranger", dict(vamm="vamm1")),
                                query("engine", "cumulative_premium_fraction", dict(vamm="vamm1"))]
                        osd = "sell" if side == "buy" else "buy"
                        if tail == "close":
                            ops.append(close("tr1"))
                        elif tail == "withdraw":
                            ops.append(tx("engine", "withdraw_margin", "tr1", dict(vamm="vamm1", amount=10)))
                        elif tail == "liquidate":
                            ops.append(liq("liq", "tr1"))
                        elif tail == "reduce":
                            ops.append(opn("tr1", osd, 500, 200))
                        else:
                            ops.append(opn("tr1", osd, 6000, 200, funds=6000 if native else 0))
                        ops.append(close("tr1"))
                        out.append(dict(id="fz-%d" % k, deploy=dep(coll, vamms=[dict(period=86400)]), ops=ops))
                        k += 1
    return out

def _swap_in(x, y, dirn, q):
    """vAMM swap_input(dir, quote q) on reserves (x, y): new reserves (input side only: used to *aim* trades)"""
    k = x * y
    xa = x + q if dirn == "add" else x - q
    if xa <= 0:
        return None
    ya = k // xa
    bought = abs(ya - y)
    if k % xa:
        bought = bought - 1 if dirn == "add" else bought + 1
    return (xa, y - bought if dirn == "add" else y + bought)

def c07edge(tier, seed):
    """the spot price pushed *exactly onto* the edge of the per-block band (the last admissible price), the
    victim liquidated, another trader opening / closing in that same block"""
    out = []
    k = 0
    for fl in (5, 10):
        for vside in ("buy", "sell"):
            pdirn = "rem" if vside == "buy" else "add"
            pside = "sell" if vside == "buy" else "buy"
            for coll in ("cw20", "native"):
                native = coll == "native"
                x, y = 100000, 10000
                ops = [block(15)]
                # victim: 10x, price impact inside the band
                vm = 200 if fl == 5 else 400
                ops.append(opn("tr1", vside, vm, 1000, funds=vm if native else 0))
                x, y = _swap_in(x, y, "add" if vside == "buy" else "rem", vm * 10)
                hit = False
                for rnd in range(4):
                    ops.append(block(901))
                    p0 = x * D // y
                    up, lo = p0 * (D + fl) // D, p0 * (D - fl) // D
                    edge = lo if pdirn == "rem" else up
                    # largest push whose end price is still admissible; remember whether it lands on the edge itself
                    best = None
                    for q in range(100, 12000, 1):
                        r = _swap_in(x, y, pdirn, q)
                        if r is None:
                            break
                        pr = r[0] * D // r[1]
                        if lo <= pr <= up:
                            best = (q, r, pr)
                        else:
                            break
                    if best is None:
                        break
                    q, r, pr = best
                    m = q // 10 if q % 10 == 0 else None
                    if m is None:
                        # margin x 10x must give exactly q: fall back to 1x
                        ops.append(opn("tr2", pside, q, 100, funds=q if native else 0))
                    else:
                        ops.append(opn("tr2", pside, m, 1000, funds=m if native else 0))
                    x, y = r
                    hit = hit or pr == edge
                    ops += [query("engine", "margin_ratio", dict(vamm="vamm1", trader="tr1")), query("vamm1", "spot_price", {}),
                            sweep_free(liq("liq", "tr1"))]
                ops += [opn("tr3", vside, 50, 200, funds=50 if native else 0), close("tr3"), close("tr2")]
                out.append(dict(id="c07e-%d" % k, deploy=dep(coll, engine=dict(mmr=5, imr=5, plr=0 if k % 2 else 25), vamms=[dict(fluct=fl)]), ops=ops))
                k += 1
    return out

def sweep_free(o):
    return o

def c14f(tier, seed):
    """gates closed *after* a history: funding settled, positions open, then the vAMM is de-registered / closed /
    the engine paused, then every operation"""
    out = []
    k = 0
    for coll in ("cw20", "native"):
        native = coll == "native"
        for gate in ("remove", "close", "pause", "remove+readd", "none"):
            gates = {"remove": [tx("ifund", "remove_vamm", "owner", dict(vamm="vamm1"))],
                     "close": [tx("vamm1", "set_open", "owner", dict(open=False))],
                     "pause": [tx("engine", "set_pause", "owner", dict(pause=True))],
                     "remove+readd": [tx("ifund", "remove_vamm", "owner", dict(vamm="vamm1")), tx("ifund", "add_vamm", "owner", dict(vamm="vamm1"))],
                     "none": []}[gate]
            trials = [
                opn("tr3", "buy", 500, 500, funds=500 if native else 0),
                opn("tr2", "buy", 100, 1000, funds=100 if native else 0),
                close("tr2"),
                tx("engine", "deposit_margin", "tr2", dict(vamm="vamm1", amount=50), funds=50 if native else 0),
                tx("engine", "withdraw_margin", "tr2", dict(vamm="vamm1", amount=5)),
                liq("liq", "tr1"),
                tx("engine", "pay_funding", "stranger", dict(vamm="vamm1")),
            ]
            for t in trials:
                ops = underwater_prefix(native) + [block(3600), tx("engine", "pay_funding", "stranger", dict(vamm="vamm1")),
                                                  block(3600), tx("engine", "pay_funding", "liq", dict(vamm="vamm1")), block(3600)] + gates + [
                       query("ifund", "is_vamm", dict(vamm="vamm1")), t]
                out.append(dict(id="c14f-%d" % k, deploy=dep(coll, vamms=[{}, {}]), ops=ops))
                k += 1
                if t["m"] == "liquidate":
                    for (plr, liqfee, mmr) in ((25, 1, 5), (25, 1, 10), (50, 5, 10)):
                        out.append(dict(id="c14f-%d" % k, deploy=dep(coll, engine=dict(plr=plr, liqfee=liqfee, mmr=mmr, imr=10), vamms=[{}, {}]), ops=ops))
                        k += 1
    return out

def c12hi(tier, seed):
    """fee ratios anywhere in [0, 1], also summing to more than 1; dust notionals"""
    out = []
    k = 0
    for coll in ("cw20", "native"):
        native = coll == "native"
        for (toll, spread) in ((60, 70), (100, 100), (50, 100), (100, 0), (0, 100), (33, 67), (99, 2), (1, 1), (5, 1), (1, 10)):
            for (m, lev) in ((1000, 200), (37, 1000), (3, 100), (80, 100), (9, 100)):
                ff = fee_funds(native, m, lev, toll, spread)
                fo = (ff - m) if native else 0
                ops = [block(15), opn("tr1", "buy", m, lev, funds=ff), block(15),
                       opn("tr1", "sell", m // 2 + 1, lev, funds=fo * 0 + (fee_funds(native, m // 2 + 1, lev, toll, spread) - (m // 2 + 1) if native else 0)),
                       block(15), opn("tr1", "sell", 3 * m, lev, funds=fee_funds(native, 3 * m, lev, toll, spread)), block(15),
                       close("tr1"),
                       opn("tr2", "sell", m, lev, funds=ff), tx("engine", "deposit_margin", "tr2", dict(vamm="vamm1", amount=7), funds=7 if native else 0),
                       tx("engine", "withdraw_margin", "tr2", dict(vamm="vamm1", amount=3)), close("tr2")]
                out.append(dict(id="c12hi-%d" % k, deploy=dep(coll, trader_bal=5000000, vamms=[dict(toll=toll, spread=spread)]), ops=ops))
                k += 1
    return out

def c15sub(tier, seed):
    """consecutive blocks inside one second (sub-second block times) with several trades each, next to the band edge"""
    out = []
    k = 0
    for fl in (5, 2):
        for side in ("buy", "sell"):
            for (a1, a2, a3) in ((1000, 2000, 2000), (500, 2200, 900), (2000, 300, 2300), (100, 2400, 2400)):
                sc = 1 if fl == 5 else 0.4
                a1, a2, a3 = int(a1 * sc), int(a2 * sc), int(a3 * sc)
                for gap in (dict(dt=0, dns=400000000), dict(dt=0, dns=999999999), dict(dt=1, dns=0)):
                    ops = [dict(k="block", dh=1, dt=15, dns=0), opn("tr1", side, a1, 100),
                           dict(k="block", dh=1, **gap), opn("tr2", side, a2, 100), opn("tr1", side, a3, 100), opn("tr3", side, a3, 100),
                           dict(k="block", dh=1, **gap), opn("tr2", side, a2, 100), close("tr1"), opn("tr3", side, a3, 100),
                           query("vamm1", "twap_price", dict(interval=900))]
                    out.append(dict(id="c15s-%d" % k, deploy=dep("cw20", engine=dict(plr=25), vamms=[dict(fluct=fl)]), ops=ops))
                    k += 1
    return out

def c18long(tier, seed):
    """a long market history: a trade in each of 130 / 260 blocks (one reserve snapshot per block), then TWAPs over
    intervals shorter than, equal to and longer than the history"""
    out = []
    rng = random.Random(seed)
    for j, (nblk, gap) in enumerate(((130, 6), (260, 6), (140, 61))):
        ops = []
        for i in range(nblk):
            ops.append(block(gap))
            d = "add" if (i // 7) % 2 == 0 else "rem"
            ops.append(tx("vamm1", "swap_input", "drv", dict(dir=d, amount=200 + 13 * (i % 5), limit=0, over=False)))
        for iv in (60, 300, 600, 601, 900, 3600, nblk * gap, nblk * gap + 500, 86400):
            ops.append(query("vamm1", "twap_price", dict(interval=iv)))
        ops += [query("vamm1", "input_twap", dict(dir="add", amount=500)), query("vamm1", "output_twap", dict(dir="rem", amount=50))]
        out.append(dict(id="c18long-%d" % j, deploy=dep("cw20", direct=True), ops=ops))
    # the engine's funding settlement over a long history (the vAMM TWAP it uses)
    ops = [block(15), opn("tr1", "buy", 500, 200)]
    for i in range(120):
        ops += [block(31), opn("tr2", "buy" if i % 2 == 0 else "sell", 300, 100)]
    ops += [tx("engine", "pay_funding", "stranger", dict(vamm="vamm1")), query("engine", "cumulative_premium_fraction", dict(vamm="vamm1"))]
    out.append(dict(id="c18long-f", deploy=dep("cw20"), ops=ops))
    return out

def c13flat(tier, seed):
    """twin scenarios: a position closed through an opposite OpenPosition of exactly its value, with fees, with the
    vault short of the equity owed (another trader's margin left with a profit) or ample"""
    out = []
    k = 0
    for (toll, spread) in ((10, 0), (5, 10), (0, 0), (1, 1)):
        for vside in ("buy", "sell"):
            for (m2, lev2) in ((3500, 1000), (500, 1000), (0, 0)):
                for delta in (0, 1, -1):
                    ops = [block(15), opn("tr1", vside, 2500, 1000)]
                    if m2:
                        ops.append(opn("tr2", vside, m2, lev2))
                    ops += [block(15), dict(k="flatten", s="tr1", v="vamm1", delta=delta),
                            query("engine", "position", dict(vamm="vamm1", trader="tr1")), close("tr1"), close("tr2")]
                    out.append(dict(id="c13flat-%d" % k, deploy=dep("cw20", vamms=[dict(toll=toll, spread=spread)]), ops=ops))
                    k += 1
    return out

def selfliq(tier, seed):
    """a trader liquidating their own position: ratio above zero, below zero, partial and whole paths"""
    out = []
    k = 0
    for coll in ("cw20", "native"):
        native = coll == "native"
        for plr in (0, 25, 100):
            for mmr in (5, 10):
                for push in (2500, 3500, 4500, 6000, 9000):
                    ops = underwater_prefix(native, push=push) + [
                        query("engine", "margin_ratio", dict(vamm="vamm1", trader="tr1")),
                        liq("tr1", "tr1"), query("engine", "position", dict(vamm="vamm1", trader="tr1")),
                        liq("tr2", "tr2"), block(15), liq("tr1", "tr1"), close("tr1"), close("tr2")]
                    out.append(dict(id="selfliq-%d" % k, deploy=dep(coll, engine=dict(plr=plr, mmr=mmr, imr=10)), ops=ops))
                    k += 1
    return out



def dustliq(tier, seed):
    """dust positions (2-4 raw base units, 2x) pushed into the window (liquidation fee, maintenance]: the
    partial liquidation's slice rounds to zero"""
    out = []
    k = 0
    for coll in ("cw20", "native"):
        native = coll == "native"
        for vside in ("buy", "sell"):
            pside = "sell" if vside == "buy" else "buy"
            for (plr, liqfee) in ((25, 1), (10, 2)):
                for m in (20, 15, 10):
                    for push in range(6000, 31000, 750 if coll == "cw20" else 3000):
                        ops = [block(15), opn("tr1", vside, m, 200, funds=m if native else 0),
                               query("engine", "position", dict(vamm="vamm1", trader="tr1")), block(15),
                               opn("tr2", pside, push, 100, funds=push if native else 0), block(901),
                               dict(k="oracle_rel", v="vamm1", off=0, interval=60),
                               query("engine", "margin_ratio", dict(vamm="vamm1", trader="tr1")),
                               liq("liq", "tr1"), query("engine", "position", dict(vamm="vamm1", trader="tr1")),
                               block(15), liq("tr3", "tr1"), close("tr1"), close("tr2")]
                        out.append(dict(id="dustliq-%d" % k, deploy=dep(coll, trader_bal=5000000, engine=dict(imr=10, mmr=5, plr=plr, liqfee=liqfee)), ops=ops))
                        k += 1
    return out

def fundbig(tier, seed):
    """funding owed larger than the stored margin while the position is in profit (equity positive): every way
    of settling it"""
    out = []
    k = 0
    day = 86400
    for coll in ("cw20", "native"):
        native = coll == "native"
        for side in ("buy", "sell"):
            for off in (120, 200, 400):
                for tail in ("close", "withdraw", "reduce", "reverse", "liquidate", "deposit_close"):
                    sgn = -1 if side == "buy" else 1          # longs pay when the oracle is below the vAMM TWAP
                    osd = "sell" if side == "buy" else "buy"
                    ops = [block(15), opn("tr1", side, 1000, 1000, funds=1000 if native else 0), block(15),
                           opn("tr2", side, 10000, 500, funds=10000 if native else 0), block(3601),
                           dict(k="oracle_rel", v="vamm1", off=sgn * off), block(day),
                           tx("engine", "pay_funding", "stranger", dict(vamm="vamm1")),
                           query("engine", "position_with_funding_payment", dict(vamm="vamm1", trader="tr1")),
                           query("engine", "unrealized_pnl", dict(vamm="vamm1", trader="tr1", opt="spot_price"))]
                    if tail == "close":
                        ops.append(close("tr1"))
                    elif tail == "withdraw":
                        ops += [tx("engine", "withdraw_margin", "tr1", dict(vamm="vamm1", amount=10)), close("tr1")]
                    elif tail == "reduce":
                        ops += [opn("tr1", osd, 200, 1000), close("tr1")]
                    elif tail == "reverse":
                        ops += [opn("tr1", osd, 3000, 1000, funds=3000 if native else 0), close("tr1")]
                    elif tail == "liquidate":
                        ops += [liq("liq", "tr1"), close("tr1")]
                    else:
                        ops += [tx("engine", "deposit_margin", "tr1", dict(vamm="vamm1", amount=50), funds=50 if native else 0), close("tr1")]
                    ops.append(close("tr2"))
                    out.append(dict(id="fundbig-%d" % k, deploy=dep(coll, vamms=[dict(period=day)]), ops=ops))
                    k += 1
    return out

def fundempty(tier, seed):
    """funding settled while the net position is zero (nobody in the market, or an exactly balanced book) and the
    premium is not: the cumulative fraction must still advance; positions opened around it are charged from it -
    at their next margin withdrawal, or directly at their close"""
    out = []
    k = 0
    for coll in ("cw20", "native"):
        native = coll == "native"
        for off in (48, -48, 240, -120):
            for book in ("empty", "balanced", "dust"):
                for tail in ("withdraw", "close"):
                    ops = [block(15)]
                    if book == "balanced":
                        ops += [opn("tr1", "buy", 600, 100, funds=600 if native else 0), opn("tr2", "sell", 600, 100, funds=600 if native else 0),
                                query("vamm1", "state", {})]
                    elif book == "dust":
                        ops += [opn("tr1", "buy", 1, 100, funds=1 if native else 0)]
                    ops += [block(3600), dict(k="oracle_rel", v="vamm1", off=off), block(3600),
                            tx("engine", "pay_funding", "stranger", dict(vamm="vamm1")),
                            query("engine", "cumulative_premium_fraction", dict(vamm="vamm1"))]
                    if tail == "withdraw":
                        ops += [opn("tr3", "buy", 500, 200, funds=500 if native else 0), block(3600),
                                tx("engine", "pay_funding", "liq", dict(vamm="vamm1")),
                                tx("engine", "withdraw_margin", "tr1", dict(vamm="vamm1", amount=1)),
                                tx("engine", "withdraw_margin", "tr2", dict(vamm="vamm1", amount=1)),
                                tx("engine", "withdraw_margin", "tr3", dict(vamm="vamm1", amount=1))]
                    ops += [close("tr1"), close("tr2"), close("tr3")]
                    out.append(dict(id="fundempty-%d" % k, deploy=dep(coll), ops=ops))
                    k += 1
    return out

def c06t(tier, seed):
    """a vAMM whose configured (funding) TWAP interval is shorter than 15 minutes: the liquidation ratio still uses
    the 15-minute TWAP; price moved longer ago than the configured interval but inside 15 minutes"""
    out = []
    k = 0
    for twapint in (60, 300):
        for vside in ("buy", "sell"):
            pside = "sell" if vside == "buy" else "buy"
            for wait in (61, 301, 420, 700):
                for push in (4000, 4800, 5400, 6000, 7000, 9000):
                    ops = [block(15), opn("tr1", vside, 2500, 1000), block(1800),
                           opn("tr2", pside, push // 10, 1000), block(wait),
                           dict(k="oracle_rel", v="vamm1", off=0, interval=1),
                           query("engine", "margin_ratio", dict(vamm="vamm1", trader="tr1")),
                           liq("liq", "tr1"), block(901), liq("liq", "tr1")]
                    out.append(dict(id="c06t-%d" % k, deploy=dep("cw20", engine=dict(plr=0), vamms=[dict(twapint=twapint)]), ops=ops))
                    k += 1
    return out

def closelim(tier, seed):
    """ClosePosition carrying a slippage limit the trade satisfies (and one it does not), on the whole-close and on
    the partial-close (price band) path: the position is built over several blocks so that closing it whole
    would cross the band; pools priced at 10 and below 1 (sizes larger than notionals), non-divisible amounts"""
    out = []
    k = 0
    for coll in ("cw20", "native"):
        native = coll == "native"
        for (px, py) in ((100000, 10000), (20000, 50000)):
            for fl in (0, 5):
                for plr in (0, 25, 100):
                    for side in ("buy", "sell"):
                        ok_lim = 100 if side == "buy" else 10 ** 7
                        bad_lim = 10 ** 7 if side == "buy" else 1
                        for (m, nb) in ((px // 50 + 7, 3), (px // 160 + 1, 1)):
                            for lim in (ok_lim, bad_lim, 0):
                                if (px, py) != (100000, 10000) and (lim == bad_lim or native):
                                    continue
                                ops = []
                                for _ in range(nb):
                                    ops += [block(15), opn("tr1", side, m, 100, funds=m if native else 0)]
                                ops += [block(15), opn("tr2", side, px // 160, 100, funds=px // 160 if native else 0), block(15),
                                        close("tr1", limit=lim), query("engine", "position", dict(vamm="vamm1", trader="tr1")),
                                        block(15), close("tr1", limit=lim), block(15), close("tr1", limit=ok_lim), close("tr2", limit=ok_lim)]
                                out.append(dict(id="closelim-%d" % k, deploy=dep(coll, oracle=px * 100 // py, engine=dict(plr=plr), vamms=[dict(x=px, y=py, fluct=fl)]), ops=ops))
                                k += 1
    # the same with trading fees (a partial close is charged on the slice it trades)
    for side in ("buy", "sell"):
        ok_lim = 100 if side == "buy" else 10 ** 7
        for (toll, spread) in ((5, 10), (10, 0)):
            for plr in (25, 50):
                for lim in (0, ok_lim):
                    ops = []
                    for _ in range(3):
                        ops += [block(15), opn("tr1", side, 2007, 100)]
                    ops += [block(15), close("tr1", limit=lim), query("engine", "position", dict(vamm="vamm1", trader="tr1")),
                            block(15), close("tr1", limit=lim), block(15), close("tr1"), block(15), close("tr1")]
                    out.append(dict(id="closelim-%d" % k, deploy=dep("cw20", engine=dict(plr=plr), vamms=[dict(fluct=5, toll=toll, spread=spread)]), ops=ops))
                    k += 1
    return out

def c04prepaid(tier, seed):
    """state carried over: the insurance fund pre-paid a payout the vault could not cover (prepaid bad debt > 0);
    then an under-water trader tries every way out (close, opposite order, withdrawal), is liquidated, deposits"""
    out = []
    k = 0
    for coll in ("cw20", "native"):
        native = coll == "native"
        for side in ("buy", "sell"):
            osd = "sell" if side == "buy" else "buy"
            for (m1, m2, m3) in ((2500, 3000, 2000), (2000, 1500, 4000), (1000, 2500, 2500)):
                for plr in (0, 25):
                    tails = [
                        [close("tr2"), close("tr3")],
                        [dict(k="flatten", s="tr2", v="vamm1", delta=0), close("tr2"), close("tr3")],
                        [tx("engine", "withdraw_margin", "tr2", dict(vamm="vamm1", amount=100)), opn("tr2", osd, 500, 1000), close("tr3")],
                        [liq("liq", "tr2"), close("tr3"), liq("liq", "tr3")],
                        [tx("engine", "deposit_margin", "tr2", dict(vamm="vamm1", amount=3000), funds=3000 if native else 0), close("tr2"), close("tr3")],
                    ]
                    for tl in tails:
                        ops = [block(15), opn("tr1", side, m1, 1000, funds=m1 if native else 0),
                               opn("tr2", side, m2, 1000, funds=m2 if native else 0),
                               opn("tr3", side, m3, 1000, funds=m3 if native else 0), block(15),
                               close("tr1"), query("engine", "state", {}), block(901)] + tl + [query("engine", "state", {})]
                        out.append(dict(id="c04pp-%d" % k, deploy=dep(coll, engine=dict(plr=plr)), ops=ops))
                        k += 1
    # ... and a SOLVENT victim (margin left after the liquidator's fee, no bad debt of its own) liquidated whole while
    # the pre-payment is outstanding and the vault is liquid again
    for coll in ("cw20", "native"):
        native = coll == "native"
        for side in ("buy", "sell"):
            for lev3 in (230, 265, 300, 350, 420):
                ops = [block(15), opn("tr1", side, 2000, 1000, funds=2000 if native else 0),
                       opn("tr2", side, 2000, 1000, funds=2000 if native else 0),
                       opn("tr3", side, 4000, lev3, funds=4000 if native else 0), block(15),
                       close("tr1"), query("engine", "state", {}),
                       tx("engine", "deposit_margin", "tr2", dict(vamm="vamm1", amount=10000), funds=10000 if native else 0),
                       block(1200), dict(k="oracle_rel", v="vamm1", off=0, interval=1),
                       query("engine", "margin_ratio", dict(vamm="vamm1", trader="tr3")),
                       liq("liq", "tr3"), query("engine", "state", {}), close("tr3"), close("tr2")]
                out.append(dict(id="c04pp-%d" % k, deploy=dep(coll, engine=dict(plr=0)), ops=ops))
                k += 1
    return out

def c05red(tier, seed):
    """a position between bad debt and maintenance (0 < ratio < maintenance): the owner reduces it a little, a lot,
    increases it, deposits and reduces"""
    out = []
    k = 0
    for coll in ("cw20", "native"):
        native = coll == "native"
        for push in (3000, 3400, 3800, 4200, 4600):
            for act in ("reduce1", "reduce_half", "increase", "deposit_reduce", "reduce_most"):
                ops = underwater_prefix(native, push=push) + [query("engine", "margin_ratio", dict(vamm="vamm1", trader="tr1"))]
                if act == "reduce1":
                    ops += [opn("tr1", "sell", 100, 100)]
                elif act == "reduce_half":
                    ops += [opn("tr1", "sell", 1200, 1000)]
                elif act == "reduce_most":
                    ops += [opn("tr1", "sell", 2300, 1000)]
                elif act == "increase":
                    ops += [opn("tr1", "buy", 100, 1000, funds=100 if native else 0)]
                else:
                    ops += [tx("engine", "deposit_margin", "tr1", dict(vamm="vamm1", amount=2000), funds=2000 if native else 0), opn("tr1", "sell", 100, 100)]
                ops += [query("engine", "margin_ratio", dict(vamm="vamm1", trader="tr1")), close("tr1"), close("tr2")]
                out.append(dict(id="c05red-%d" % k, deploy=dep(coll), ops=ops))
                k += 1
    return out


def liqfees(tier, seed):
    """liquidations on a vAMM that charges toll and spread (no trading fee may be taken by a liquidation, nobody but
    sender / engine / fund / pool may move): solvent and insolvent victims, whole and partial, cw20 and native"""
    out = []
    k = 0
    for coll in ("cw20", "native"):
        native = coll == "native"
        for (toll, spread) in ((5, 5), (10, 0), (0, 10)):
            ff = lambda m, lev=1000: fee_funds(native, m, lev, toll, spread)
            for plr in (0, 25):
                for liqfee in (1, 5):
                    for push in (3200, 3800, 4500, 5500, 8000):
                        for vside in ("buy", "sell"):
                            pside = "sell" if vside == "buy" else "buy"
                            ops = [block(15), opn("tr1", vside, 2500, 1000, funds=ff(2500)),
                                   opn("tr2", pside, push // 10, 1000, funds=ff(push // 10)), block(901),
                                   query("engine", "margin_ratio", dict(vamm="vamm1", trader="tr1")),
                                   liq("liq", "tr1"), block(15), liq("tr3", "tr1"), close("tr1"), close("tr2")]
                            out.append(dict(id="liqfees-%d" % k, deploy=dep(coll, engine=dict(plr=plr, liqfee=liqfee), vamms=[dict(toll=toll, spread=spread)]), ops=ops))
                            k += 1
    return out

def c06long(tier, seed):
    """a busy market: more than 128 trading blocks inside the last 15 minutes before the liquidation, the adverse move
    older than those blocks but inside the window"""
    out = []
    k = 0
    for vside in ("buy", "sell"):
        pside = "sell" if vside == "buy" else "buy"
        for push in (4200, 5000, 5600):
            for nblk in (135, 200):
                ops = [block(15), opn("tr1", vside, 1000, 1000), block(600), opn("tr2", pside, push, 100)]
                for i in range(nblk):
                    ops += [block(3), opn("tr3" if i % 2 == 0 else "tr2", "buy" if i % 2 == 0 else "sell", 20, 100)]
                ops += [dict(k="oracle_rel", v="vamm1", off=0, interval=1),
                        query("engine", "margin_ratio", dict(vamm="vamm1", trader="tr1")), liq("liq", "tr1"),
                        query("vamm1", "twap_price", dict(interval=900)), query("vamm1", "output_twap", dict(dir="add", amount=100))]
                out.append(dict(id="c06long-%d" % k, deploy=dep("cw20", engine=dict(plr=0)), ops=ops))
                k += 1
    return out

def c02tw(tier, seed):
    """an opposite order whose notional lies between the spot value and the (lagging) TWAP value of the position -
    reduce or reverse is decided on the spot value - then every later trade on the position"""
    out = []
    k = 0
    for coll in ("cw20", "native"):
        native = coll == "native"
        for side in ("buy", "sell"):
            osd = "sell" if side == "buy" else "buy"
            for push in (2000, 4000):
                for delta in (-600, -200, -1, 0, 1, 150, 400, 900, 1500):
                    for tail in ("close", "liquidate", "reverse"):
                        ops = [block(15), opn("tr1", side, 6000, 100, funds=6000 if native else 0), block(1000),
                               opn("tr2", osd, push, 100, funds=push if native else 0),
                               dict(k="flatten", s="tr1", v="vamm1", delta=delta, lim_off=(-1 if side == "buy" else 1), funds=(6000 + max(delta, 0)) if native else 0),
                               dict(k="flatten", s="tr1", v="vamm1", delta=delta, funds=(6000 + max(delta, 0)) if native else 0),
                               query("engine", "position", dict(vamm="vamm1", trader="tr1")), block(15)]
                        if tail == "close":
                            ops += [close("tr1")]
                        elif tail == "liquidate":
                            ops += [liq("liq", "tr1"), close("tr1")]
                        else:
                            ops += [opn("tr1", side, 3000, 100, funds=3000 if native else 0), close("tr1")]
                        ops += [close("tr2")]
                        out.append(dict(id="c02tw-%d" % k, deploy=dep(coll), ops=ops))
                        k += 1
    return out

def wdrel(tier, seed):
    """WithdrawMargin of exactly the free collateral, one unit more, and free collateral + funding owed, for positions
    in profit / at a loss with funding owed / receivable"""
    out = []
    k = 0
    day = 86400
    for coll in ("cw20", "native"):
        native = coll == "native"
        for side in ("buy", "sell"):
            for fav in (True, False):
                for off in (-30, 30, 0):
                    pside = side if fav else ("sell" if side == "buy" else "buy")
                    for woff in (0, 1, 20, 40, -1):
                        ops = [block(15), opn("tr1", side, 6000, 1000, funds=6000 if native else 0), block(15),
                               opn("tr2", pside, 2000, 1000, funds=2000 if native else 0), block(3601)]
                        if off:
                            ops += [dict(k="oracle_rel", v="vamm1", off=off), block(day),
                                    tx("engine", "pay_funding", "stranger", dict(vamm="vamm1"))]
                        ops += [query("engine", "free_collateral", dict(vamm="vamm1", trader="tr1")),
                                dict(k="withdraw_rel", s="tr1", v="vamm1", off=woff),
                                query("engine", "free_collateral", dict(vamm="vamm1", trader="tr1")), close("tr1"), close("tr2")]
                        out.append(dict(id="wdrel-%d" % k, deploy=dep(coll, vamms=[dict(period=day)]), ops=ops))
                        k += 1
    return out


def c15fund(tier, seed):
    """a trade, a funding settlement and further trades inside one block, next to the band edge (the settlement
    must not re-centre the band); and a settlement as the first action of the block"""
    out = []
    k = 0
    for fl in (5, 2):
        sc = 1 if fl == 5 else 0.4
        for side in ("buy", "sell"):
            for (a1, a2, a3) in ((1000, 2000, 2000), (500, 2300, 600), (100, 2400, 2400)):
                a1, a2, a3 = int(a1 * sc), int(a2 * sc), int(a3 * sc)
                for order in (0, 1, 2):
                    pf = tx("engine", "pay_funding", "stranger", dict(vamm="vamm1"))
                    mid = [opn("tr2", side, a2, 100), pf, opn("tr1", side, a3, 100), opn("tr3", side, a3, 100)] if order == 0 else \
                          [pf, opn("tr2", side, a2, 100), opn("tr1", side, a3, 100), opn("tr3", side, a3, 100)] if order == 1 else \
                          [opn("tr2", side, a2, 100), opn("tr1", side, a3 // 3, 100), pf, pf, opn("tr3", side, a3, 100), close("tr1")]
                    ops = [block(15), opn("tr1", side, a1, 100), block(3700)] + mid + [
                           query("vamm1", "twap_price", dict(interval=900)), block(15), opn("tr2", side, a2, 100), close("tr2")]
                    out.append(dict(id="c15f-%d" % k, deploy=dep("cw20", engine=dict(plr=25), vamms=[dict(fluct=fl)]), ops=ops))
                    k += 1
    return out

def c16pc(tier, seed):
    """a ClosePosition turned into a partial close by the price band, in a block in which somebody else is liquidated:
    the partially closed trader acts again in that block"""
    out = []
    k = 0
    for coll in ("cw20", "native"):
        native = coll == "native"
        for plr in (25, 50):
            for order in (0, 1):
                for second in ("close", "open_same", "open_opp"):
                    # a SMALL victim (its liquidation barely moves the price), pushed under water by tr2
                    ops = [block(15), opn("tr1", "buy", 200, 1000, funds=200 if native else 0),
                           opn("tr2", "sell", 650, 1000, funds=650 if native else 0), block(901),
                           tx("vamm1", "update_config", "owner", dict(fluct=10)), block(15)]
                    # tr3 builds a short over three blocks (each inside the 10 % band, each pushing tr1 further under
                    # water); closing it whole would cross the band
                    for _ in range(3):
                        ops += [opn("tr3", "sell", 2500, 100, funds=2500 if native else 0), block(15)]
                    l = liq("liq", "tr1")
                    c = close("tr3")
                    ops += [dict(k="oracle_rel", v="vamm1", off=0, interval=1)]      # oracle at the market: no spread override
                    ops += [l, c] if order == 0 else [c, l]
                    ops += [query("engine", "position", dict(vamm="vamm1", trader="tr3"))]
                    if second == "close":
                        ops += [close("tr3")]
                    elif second == "open_same":
                        ops += [opn("tr3", "sell", 100, 100, funds=100 if native else 0)]
                    else:
                        ops += [opn("tr3", "buy", 100, 100)]
                    ops += [block(15), close("tr3"), block(15), close("tr3"), block(15), close("tr3")]
                    out.append(dict(id="c16pc-%d" % k, deploy=dep(coll, engine=dict(plr=plr)), ops=ops))
                    k += 1
    return out


def zeroeq(tier, seed):
    """a position whose equity (margin + pnl - funding) is exactly zero (or one unit either side), closed by its owner
    through ClosePosition, through an opposite order of exactly its value, reduced, liquidated"""
    out = []
    k = 0
    for coll in ("cw20", "native"):
        native = coll == "native"
        for side in ("buy", "sell"):
            pside = "sell" if side == "buy" else "buy"
            for push in (4500, 6000):
                for off in (0, 1, -1, 25):
                    for tail in ("flatten", "close", "reduce", "liquidate", "flatten+1"):
                        ops = [block(15), opn("tr1", side, 2500, 1000, funds=2500 if native else 0),
                               opn("tr2", pside, push, 1000, funds=push if native else 0), block(901),
                               dict(k="zero_equity", s="tr1", v="vamm1", off=off),
                               query("engine", "position", dict(vamm="vamm1", trader="tr1"))]
                        if tail == "flatten":
                            ops += [dict(k="flatten", s="tr1", v="vamm1", delta=0)]
                        elif tail == "flatten+1":
                            ops += [dict(k="flatten", s="tr1", v="vamm1", delta=1)]
                        elif tail == "close":
                            ops += [close("tr1")]
                        elif tail == "reduce":
                            ops += [opn("tr1", pside, 500, 1000)]
                        else:
                            ops += [liq("liq", "tr1")]
                        ops += [query("engine", "position", dict(vamm="vamm1", trader="tr1")), close("tr1"), close("tr2")]
                        out.append(dict(id="zeroeq-%d" % k, deploy=dep(coll), ops=ops))
                        k += 1
    return out

def twoliq(tier, seed):
    """several liquidations on one vAMM inside one block (whole and partial, same and different liquidators), then
    further liquidations and trades in the next block"""
    out = []
    k = 0
    for coll in ("cw20", "native"):
        native = coll == "native"
        for plr in (0, 25):
            for side in ("buy", "sell"):
                pside = "sell" if side == "buy" else "buy"
                for push in (5200, 8000):
                    ops = [block(15), opn("tr1", side, 1500, 1000, funds=1500 if native else 0),
                           opn("tr2", side, 1000, 1000, funds=1000 if native else 0),
                           opn("tr3", side, 800, 1000, funds=800 if native else 0),
                           opn("liq", pside, push, 1000, funds=push if native else 0), block(901),
                           liq("liq", "tr1"), liq("liq", "tr2"), liq("sfx", "tr3"), liq("sfx", "tr1"),
                           query("engine", "position", dict(vamm="vamm1", trader="tr2")),
                           block(15), liq("liq", "tr1"), liq("liq", "tr2"), close("tr3"), close("liq")]
                    out.append(dict(id="twoliq-%d" % k, deploy=dep(coll, engine=dict(plr=plr)), ops=ops))
                    k += 1
    return out

def spike(tier, seed):
    """a position liquidatable on its TWAP loss while a fresh spike has put it in profit at spot (partial liquidations
    realise the spot pnl of the slice)"""
    out = []
    k = 0
    for coll in ("cw20", "native"):
        native = coll == "native"
        for side in ("buy", "sell"):
            pside = "sell" if side == "buy" else "buy"
            for (plr, liqfee) in ((25, 2), (50, 1)):
                for push in (3000, 4000, 5000):
                    for sp in (8000, 14000, 20000):
                        ops = [block(15), opn("tr1", side, 2500, 1000, funds=2500 if native else 0),
                               opn("tr2", pside, push, 100, funds=push if native else 0), block(7200),
                               opn("tr3", side, sp, 200, funds=sp if native else 0),
                               dict(k="oracle_rel", v="vamm1", off=0, interval=1),
                               query("engine", "margin_ratio", dict(vamm="vamm1", trader="tr1")),
                               query("engine", "unrealized_pnl", dict(vamm="vamm1", trader="tr1", opt="spot_price")),
                               liq("liq", "tr1"), query("engine", "position", dict(vamm="vamm1", trader="tr1")),
                               block(15), liq("liq", "tr1"), close("tr1")]
                        out.append(dict(id="spike-%d" % k, deploy=dep(coll, trader_bal=5000000, engine=dict(imr=10, mmr=10, plr=plr, liqfee=liqfee)), ops=ops))
                        k += 1
    return out


def fundrnd(tier, seed):
    """funding with non-round numbers: a position opened AFTER a settlement (non-zero checkpoint), further settlements,
    and every charging operation in between (the charge is (cumulative - checkpoint) x size, truncated once)"""
    out = []
    k = 0
    day = 86400
    for coll in ("cw20", "native"):
        native = coll == "native"
        for side in ("buy", "sell"):
            for (o1, o2, o3) in ((37, -53, 71), (-29, 83, -17), (113, 7, 59)):
                for (m, lev) in ((733, 330), (1277, 270), (391, 1000)):
                    f = lambda x: x if native else 0
                    pf = tx("engine", "pay_funding", "stranger", dict(vamm="vamm1"))
                    ops = [block(15), opn("tr2", "sell" if side == "buy" else "buy", 1913, 130, funds=f(1913)), block(3601),
                           dict(k="oracle_rel", v="vamm1", off=o1), block(day), pf,
                           opn("tr1", side, m, lev, funds=f(m)), block(3601),
                           dict(k="oracle_rel", v="vamm1", off=o2), block(day), pf,
                           tx("engine", "withdraw_margin", "tr1", dict(vamm="vamm1", amount=1)), block(3601),
                           dict(k="oracle_rel", v="vamm1", off=o3), block(day), pf,
                           opn("tr1", side, 211, 190, funds=f(211)), block(3601),
                           dict(k="oracle_rel", v="vamm1", off=o1), block(day), pf,
                           opn("tr1", "sell" if side == "buy" else "buy", 97, 310), block(day), pf, close("tr1"), close("tr2")]
                    out.append(dict(id="fundrnd-%d" % k, deploy=dep(coll, vamms=[dict(period=day)]), ops=ops))
                    k += 1
    return out

def c12wl(tier, seed):
    """trading fees are owed by whitelisted traders too (the whitelist lifts the caps, nothing else)"""
    out = []
    k = 0
    for coll in ("cw20", "native"):
        native = coll == "native"
        for (toll, spread) in ((5, 10), (1, 1)):
            for wl in ("tr1", "tr2"):
                ff = lambda m, lev: fee_funds(native, m, lev, toll, spread)
                ops = [block(15), tx("engine", "add_whitelist", "owner", dict(address=wl)),
                       opn("tr1", "buy", 2000, 300, funds=ff(2000, 300)), opn("tr2", "buy", 1000, 500, funds=ff(1000, 500)), block(15),
                       opn("tr1", "sell", 500, 300, funds=(ff(500, 300) - 500) if native else 0),
                       opn("tr1", "sell", 4000, 300, funds=ff(4000, 300)), block(15), close("tr1"), close("tr2")]
                out.append(dict(id="c12wl-%d" % k, deploy=dep(coll, vamms=[dict(toll=toll, spread=spread)]), ops=ops))
                k += 1
    return out

def poorwallet(tier, seed):
    """twin scenarios with small wallets: orders that reduce or reverse a position name a margin the wallet no longer
    holds (only the net amount is pulled / attached)"""
    out = []
    k = 0
    for (toll, spread) in ((0, 0), (1, 1)):
        for bal in (10000, 7000):
            for side in ("buy", "sell"):
                osd = "sell" if side == "buy" else "buy"
                ops = [block(15), opn("tr1", side, 6000, 1000), opn("tr2", osd, 2000, 500), block(15),
                       opn("tr1", osd, 10000, 100), opn("tr1", osd, 6000, 1000), opn("tr1", side, 9000, 100), close("tr1"), close("tr2")]
                out.append(dict(id="poor-%d" % k, deploy=dep("cw20", trader_bal=bal, vamms=[dict(toll=toll, spread=spread)]), ops=ops))
                k += 1
    return out

def c18feedlong(tier, seed):
    """a long-running feed: 150 / 300 rounds for one key (a second key interleaved), then latest, n-rounds-back for every
    n around the history length and the pruning-prone values, TWAPs reaching before the oldest rounds"""
    out = []
    for j, n in enumerate((150, 300)):
        ops = []
        t = 100000
        for i in range(n):
            ops.append(block(10))
            t += 10
            ops.append(tx("feed", "append_price", "owner", dict(key="ETH", price=1000 + (i * 7) % 90, t=t)))
            if i % 50 == 0:
                ops.append(tx("feed", "append_price", "owner", dict(key="BTC", price=2000 + i, t=t)))
        ops.append(query("feed", "get_price", dict(key="ETH")))
        for nb in (0, 1, 2, 100, 127, 128, 129, n - 2, n - 1, n, n + 1):
            ops.append(query("feed", "get_previous_price", dict(key="ETH", n=nb)))
        for iv in (10, 500, 1270, 1280, 1500, n * 10 - 10, n * 10, n * 10 + 500, 100000):
            ops.append(query("feed", "get_twap_price", dict(key="ETH", interval=iv)))
        out.append(dict(id="c18feedlong-%d" % j, deploy=dep("cw20", feed="real", vamms=[{}, {}]), ops=ops))
    return out


def c11pl(tier, seed):
    """funding accrued, then the position is PARTIALLY liquidated (which neither charges nor settles), then its owner
    closes / withdraws / trades: the settlement must still be charged then"""
    out = []
    k = 0
    day = 86400
    for coll in ("cw20", "native"):
        native = coll == "native"
        for side in ("buy", "sell"):
            pside = "sell" if side == "buy" else "buy"
            for off in (-10, 10):
                for push in (1500, 2000, 2400, 2800, 3200, 3600, 4200):
                    for tail in ("close", "withdraw", "increase"):
                        ops = [block(15), opn("tr1", side, 2500, 1000, funds=2500 if native else 0), block(3601),
                               dict(k="oracle_rel", v="vamm1", off=off), block(day),
                               tx("engine", "pay_funding", "stranger", dict(vamm="vamm1")),
                               opn("tr2", pside, push // 10, 1000, funds=push // 10 if native else 0), block(901),
                               dict(k="oracle_rel", v="vamm1", off=0, interval=1),
                               query("engine", "margin_ratio", dict(vamm="vamm1", trader="tr1")),
                               liq("liq", "tr1"), query("engine", "position", dict(vamm="vamm1", trader="tr1")), block(15)]
                        if tail == "close":
                            ops += [close("tr1")]
                        elif tail == "withdraw":
                            ops += [tx("engine", "withdraw_margin", "tr1", dict(vamm="vamm1", amount=1)), close("tr1")]
                        else:
                            ops += [tx("engine", "deposit_margin", "tr1", dict(vamm="vamm1", amount=3000), funds=3000 if native else 0),
                                    opn("tr1", side, 100, 200, funds=100 if native else 0), close("tr1")]
                        ops += [close("tr2")]
                        out.append(dict(id="c11pl-%d" % k, deploy=dep(coll, engine=dict(plr=25, liqfee=1, mmr=8, imr=8), vamms=[dict(period=day)]), ops=ops))
                        k += 1
                        if tail == "close":
                            out.append(dict(id="c11pl-%d" % k, deploy=dep(coll, engine=dict(plr=0, liqfee=1, mmr=8, imr=8), vamms=[dict(period=day)]), ops=ops))
                            k += 1
    return out

def c15full(tier, seed):
    """a fluctuation limit of exactly 100 % (band [0, 2] x the previous close) and of 99 %: opens that would more than
    double the price within one block"""
    out = []
    k = 0
    for fl in (100, 99):
        for (a1, a2, a3) in ((20000, 22000, 2000), (41000, 500, 900), (15000, 15000, 15000)):
            ops = [block(15), opn("tr1", "buy", 100, 100), block(15), opn("tr1", "buy", a1, 100), opn("tr2", "buy", a2, 100),
                   opn("tr3", "buy", a3, 100), opn("tr2", "buy", a3, 100), block(15), opn("tr3", "sell", 30000, 100), opn("tr1", "sell", 30000, 100),
                   close("tr2")]
            out.append(dict(id="c15full-%d" % k, deploy=dep("cw20", trader_bal=50000000, engine=dict(plr=25), vamms=[dict(fluct=fl)]), ops=ops))
            k += 1
    return out


def noallow(tier, seed):
    """twin scenarios in which the trader revokes the engine's cw20 allowance after opening: orders whose net collateral
    flow is zero or towards the trader (reduces, closes without fees) need no allowance"""
    out = []
    k = 0
    for (toll, spread) in ((0, 0), (0, 1)):
        for side in ("buy", "sell"):
            osd = "sell" if side == "buy" else "buy"
            for amt in (1000000000, 999999000):
                ops = [block(15), opn("tr1", side, 6000, 1000), opn("tr2", osd, 2000, 500), block(15),
                       tx("token", "decrease_allowance", "tr1", dict(spender="engine", amount=amt)),
                       opn("tr1", osd, 10, 100), opn("tr1", osd, 3000, 1000), block(15),
                       dict(k="flatten", s="tr1", v="vamm1", delta=0), close("tr1"), close("tr2")]
                out.append(dict(id="noallow-%d" % k, deploy=dep("cw20", vamms=[dict(toll=toll, spread=spread)]), ops=ops))
                k += 1
    return out

FAMILIES = ["c02lp", "c04", "c04r", "c04p", "c05", "c06", "c06f", "c07", "c08", "c10", "c16", "c17", "c03",
            "zsr", "zsrliq", "attached", "fundzero", "c07edge", "c14f", "c12hi", "c15sub", "selfliq", "c13flat",
            "dustliq", "fundbig", "fundempty", "c06t", "closelim", "c17q", "c04prepaid", "c05red", "liqfees", "c02tw", "wdrel", "c15fund", "c16pc", "zeroeq", "twoliq", "spike", "fundrnd", "c12wl", "c11pl", "c10adm", "cfgsweep", "timesweep", "amtsweep", "manyfund", "emptywallet", "flatbook", "c15red", "combo", "liqseq"]

def pool(tier, seed, cap=200, exclude=(), only_cw20=False):
    """a seeded sample across ALL scenario families: every engine property is also judged on the inputs that
    were written with another property in mind (a defect rarely respects that attribution)"""
    rng = random.Random(seed * 977 + 5)
    out = []
    per = max(4, cap // max(1, len(FAMILIES) - len(exclude)))
    for f in FAMILIES:
        if f in exclude:
            continue
        scns = globals()[f](tier, seed)
        scns = [x for x in scns if not any(o.get("k") == "sweep" for o in x.get("ops", []))]
        if only_cw20:
            scns = [x for x in scns if x.get("deploy", {}).get("collateral", "cw20") == "cw20"]
        if len(scns) > per:
            scns = rng.sample(scns, per)
        out += [dict(x, id="pool-" + x["id"]) for x in scns]
    return out

def samp(scns, n, seed):
    if len(scns) <= n:
        return scns
    return random.Random(seed * 31 + len(scns)).sample(scns, n)

ENGINE_PROPS = ("C02", "C03", "C04", "C05", "C06", "C07", "C08", "C10", "C11", "C12", "C16", "C20")

def for_property(pid, tier, seed):
    q = tier == "quick"
    n = 160 if q else 100000
    out = []
    if pid == "C09":
        out = [("c09matrix", c09(tier, seed))]
    if pid == "C01":
        out = [("c10adm", c10adm(tier, seed))]
    if pid == "C14":
        out = [("c14gates", c14(tier, seed)), ("c14after", c14f(tier, seed))]
    if pid == "C20":
        out = [("c20config", c20(tier, seed))]
    if pid == "C08":
        out = [("c08sweeps", c08(tier, seed)), ("c06liq", c06(tier, seed)), ("c07vault", c07(tier, seed)),
               ("selfliq", selfliq(tier, seed)), ("attached", attached(tier, seed)), ("zsrliq", zsrliq(tier, seed)), ("closelim", closelim(tier, seed)), ("twoliq", twoliq(tier, seed)), ("zeroeq", samp(zeroeq(tier, seed), 80, seed))]
    if pid == "C16":
        out = [("c16orderings", c16(tier, seed)), ("c06liq", c06(tier, seed)), ("zsrliq", zsrliq(tier, seed)), ("selfliq", selfliq(tier, seed)), ("c16pc", c16pc(tier, seed))]
    if pid == "C03":
        out = [("c03fpool", c03(tier, seed)), ("c08sweeps", c08(tier, seed)), ("attached", attached(tier, seed)),
               ("selfliq", selfliq(tier, seed)), ("c12hi", c12hi(tier, seed)), ("dustliq", dustliq(tier, seed)), ("liqfees", liqfees(tier, seed)), ("spike", spike(tier, seed)), ("twoliq", twoliq(tier, seed))]
    if pid == "C05":
        out = [("c05lev", c05(tier, seed)), ("c08sweeps", c08(tier, seed)), ("attached", attached(tier, seed)), ("fundzero", fundzero(tier, seed)),
               ("c05reduce", c05red(tier, seed)), ("fundbig", fundbig(tier, seed)), ("wdrel", wdrel(tier, seed))]
    if pid in ("C02", "C06", "C07"):
        out = [("c02lowprice", c02lp(tier, seed)), ("c06funding", c06f(tier, seed)), ("c04funding", c04(tier, seed)), ("c06liq", c06(tier, seed)),
               ("c07vault", c07(tier, seed)), ("c08sweeps", c08(tier, seed)), ("c16orderings", c16(tier, seed)),
               ("zsr", samp(zsr(tier, seed), n, seed)), ("zsrliq", zsrliq(tier, seed)), ("selfliq", selfliq(tier, seed)), ("c07edge", c07edge(tier, seed)),
               ("dustliq", dustliq(tier, seed)), ("c06t", c06t(tier, seed)), ("closelim", samp(closelim(tier, seed), n, seed)),
               ("liqfees", samp(liqfees(tier, seed), n, seed)), ("c02tw", samp(c02tw(tier, seed), n, seed)),
               ("zeroeq", zeroeq(tier, seed)), ("twoliq", twoliq(tier, seed)), ("spike", spike(tier, seed)), ("c04prepaid", c04prepaid(tier, seed))] + ([("c06long", c06long(tier, seed))] if pid in ("C06", "C07") else [])
    if pid == "C10":
        out = [("c10alias", c10(tier, seed)), ("c08sweeps", c08(tier, seed)), ("c16orderings", c16(tier, seed)), ("c07vault", c07(tier, seed)),
               ("zsrliq", zsrliq(tier, seed)), ("zsr", samp(zsr(tier, seed), n // 2, seed)), ("c10adm", c10adm(tier, seed)), ("c03ptr", c03(tier, seed))]
    if pid in ("C12", "C04"):
        out = [("c04reverse", c04r(tier, seed)), ("c04partial", c04p(tier, seed)), ("c04funding", c04(tier, seed)), ("c08sweeps", c08(tier, seed)),
               ("c16orderings", c16(tier, seed)), ("c07vault", c07(tier, seed)), ("c12hi", c12hi(tier, seed)), ("fundzero", fundzero(tier, seed)),
               ("zsr", samp(zsr(tier, seed), n // 2, seed)), ("fundbig", fundbig(tier, seed)), ("c03ptr", c03(tier, seed)), ("c04prepaid", c04prepaid(tier, seed)), ("zeroeq", zeroeq(tier, seed)), ("c12wl", c12wl(tier, seed)), ("c11pl", c11pl(tier, seed)), ("fundempty", fundempty(tier, seed)), ("liqfees", samp(liqfees(tier, seed), n // 2, seed)),
               ("closelim", samp(closelim(tier, seed), n // 2, seed))]
    if pid == "C17":
        out = [("c17stale", c17(tier, seed)), ("closelim", closelim(tier, seed)), ("c17quote", c17q(tier, seed))]
    if pid == "C11":
        out = [("c04partial", c04p(tier, seed)), ("c04funding", c04(tier, seed)), ("c06funding", c06f(tier, seed)), ("fundzero", fundzero(tier, seed)),
               ("c18long", c18long(tier, seed)[-1:]), ("fundempty", fundempty(tier, seed)), ("fundbig", fundbig(tier, seed)), ("fundrnd", fundrnd(tier, seed)), ("c11pl", c11pl(tier, seed))]
    if pid == "C15":
        out = [("c15sub", c15sub(tier, seed)), ("c07edge", c07edge(tier, seed)), ("closelim", closelim(tier, seed)), ("c15fund", c15fund(tier, seed)), ("c15full", c15full(tier, seed))]
    if pid == "C18":
        out = [("c18long", c18long(tier, seed)), ("c15sub", c15sub(tier, seed)), ("c15fund", c15fund(tier, seed)), ("c18feedlong", c18feedlong(tier, seed)), ("c10adm", c10adm(tier, seed))]
    SWEEPS = {'C05': ['cfgsweep', 'amtsweep', 'manyfund', 'emptywallet', 'combo'], 'C06': ['cfgsweep', 'timesweep', 'manyfund', 'combo', 'liqseq'], 'C07': ['cfgsweep', 'timesweep', 'manyfund', 'combo', 'liqseq'], 'C02': ['cfgsweep', 'timesweep', 'manyfund', 'flatbook', 'combo'], 'C04': ['cfgsweep', 'manyfund', 'emptywallet', 'flatbook', 'combo'], 'C12': ['cfgsweep', 'amtsweep', 'manyfund', 'emptywallet', 'combo'], 'C11': ['cfgsweep', 'timesweep', 'manyfund', 'flatbook', 'combo'], 'C15': ['cfgsweep', 'timesweep', 'c15red'], 'C16': ['timesweep', 'cfgsweep', 'combo', 'liqseq'], 'C18': ['timesweep', 'cfgsweep', 'c18sub'], 'C03': ['amtsweep', 'manyfund', 'cfgsweep', 'emptywallet', 'flatbook', 'combo', 'liqseq'], 'C17': ['amtsweep', 'cfgsweep'], 'C20': ['cfgsweep'], 'C08': ['timesweep', 'combo', 'liqseq'], 'C10': ['timesweep', 'flatbook', 'combo'], 'C01': ['flatbook'], 'C14': ['combo']}
    for fam in SWEEPS.get(pid, []):
        out.append((fam, globals()[fam](tier, seed)))
    if pid in ENGINE_PROPS:
        # every engine property is also judged on a sample of all other families
        out.append(("pool", pool(tier, seed, cap=220 if q else 4000)))
    return out


# ------------------------------------------------------------------------------------------------
SCALE_KEYS = {"margin", "amount", "limit", "price", "hcap", "oicap", "leverage", "toll", "spread", "fluct", "imr", "mmr",
              "plr", "liqfee", "x", "y", "trader_bal", "ifund_bal", "engine_bal", "fpool_bal", "oracle", "funds", "allowance"}

def to_production_scale(scn, k=10 ** 4):
    """the same scenario at the repository's real scale (6 decimals): every amount / ratio x 10^4"""
    def sc(v, key=None):
        if isinstance(v, dict):
            return {kk: sc(x, kk) for kk, x in v.items()}
        if isinstance(v, list):
            return [sc(x, key) for x in v]
        if isinstance(v, bool):
            return v
        if isinstance(v, int) and key in SCALE_KEYS:
            return v * k
        return v
    d = sc(scn.get("deploy", {}))
    d["big"] = True
    d.pop("dec", None)
    return dict(id="P-" + scn.get("id", ""), deploy=d, ops=sc(scn.get("ops", [])))
