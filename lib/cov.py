#!/usr/bin/env python3
"""./check coverage  -- which lines of the contracts do the conformance inputs execute?

Advisory: builds the harness with -C instrument-coverage (own target dir), runs every generated /
pinned / random scenario source of every property (the same inputs the checks replay, minus the
TLC-exported behaviours) plus the twin and Integer-table runs, merges the profiles and prints, per
source file of /repo, the executed-line ratio and the uncovered line ranges.  The result is written to
reports/impl_coverage.json.  A generator miss (a reachable arm no scenario enters) shows up here."""
import os, sys, json, glob, shutil, subprocess, re, time
sys.path.insert(0, os.path.dirname(os.path.abspath(__file__)))
from common import *
import recipes, gen

LLVM = os.path.expanduser("~/.rustup/toolchains/nightly-x86_64-unknown-linux-gnu/lib/rustlib/x86_64-unknown-linux-gnu/bin")
COVDIR = os.path.join(HARNESS, "target-cov")
COVBIN = os.path.join(COVDIR, "release", "perpverif")

def main(tier="quick", seed=1):
    if not os.path.exists(os.path.join(LLVM, "llvm-cov")):
        print("coverage: llvm-tools not available; skipped")
        return 0
    os.makedirs(os.path.join(COVDIR, "buildprof"), exist_ok=True)
    env = dict(os.environ, CARGO_NET_OFFLINE="true", CARGO_TARGET_DIR=COVDIR,
               LLVM_PROFILE_FILE=os.path.join(COVDIR, "buildprof", "b-%p-%m.profraw"),   # build scripts / proc macros: keep /repo clean
               RUSTFLAGS="--cfg margined_verif --check-cfg cfg(margined_verif) -A unexpected_cfgs -C instrument-coverage")
    rc, out = sh(["cargo", "build", "--release", "--offline", "--quiet"], cwd=HARNESS, env=env, timeout=3600)
    if rc != 0:
        sys.stderr.write(out[-3000:])
        raise ToolError("instrumented build failed")
    rundir = os.path.join(WORK, "cov_%d" % os.getpid())
    prof = os.path.join(rundir, "prof")
    os.makedirs(prof, exist_ok=True)
    renv = dict(os.environ, LLVM_PROFILE_FILE=os.path.join(prof, "p-%p-%m.profraw"))
    jobs, seen = [], set()
    for pid in recipes.ALL:
        if pid in ("C13", "C19"):
            continue
        for src in recipes.sources(pid, tier, seed, rundir, {}):
            key = json.dumps(src[:4]) if src[0] == "random" else os.path.basename(src[1])
            if key in seen:
                continue
            seen.add(key)
            tp = os.path.join(rundir, "t%d.ndjson" % len(jobs))
            if src[0] == "random":
                _, driver, count, maxops, sd = src
                jobs.append([COVBIN, "random", driver, str(sd), str(count), tp, str(maxops)])
            else:
                jobs.append([COVBIN, "run", src[1], tp])
    jobs.append([COVBIN, "sint", os.path.join(rundir, "sint.ndjson")])
    def run(j, e=None):
        p = subprocess.run(j, env=e or renv, stdout=subprocess.PIPE, stderr=subprocess.STDOUT, text=True)
        return p.returncode
    with ThreadPoolExecutor(8) as ex:
        rcs = list(ex.map(run, jobs))
    # twin inputs
    tsp = os.path.join(rundir, "twin_src.ndjson")
    run([COVBIN, "random", "engine-cw20", str(seed * 131), "120", os.path.join(rundir, "tsrc.ndjson"), "25", tsp])
    if os.path.exists(tsp):
        run([COVBIN, "twin", tsp, os.path.join(rundir, "twin.ndjson")])
    def lines_of(profdir, name):
        raws = glob.glob(os.path.join(profdir, "*.profraw"))
        pd = os.path.join(rundir, name + ".profdata")
        rc, out = sh([os.path.join(LLVM, "llvm-profdata"), "merge", "-sparse", "-o", pd] + raws)
        if rc != 0:
            raise ToolError("llvm-profdata: " + out[-2000:])
        rc, out = sh([os.path.join(LLVM, "llvm-cov"), "export", "-format=lcov", "-instr-profile=" + pd, COVBIN,
                      "-ignore-filename-regex=(registry|rustc|/verif/|testing|/tests/)"])
        if rc != 0:
            raise ToolError("llvm-cov: " + out[-2000:])
        files, cur = {}, None
        for l in out.splitlines():
            if l.startswith("SF:"):
                cur = l[3:]
                files[cur] = {}
            elif l.startswith("DA:") and cur:
                ln, cnt = l[3:].split(",")[:2]
                files[cur][int(ln)] = max(files[cur].get(int(ln), 0), int(cnt))
        return files
    files = lines_of(prof, "all")
    # second pass: only the transactions that committed (a failed transaction changes nothing, so the
    # filtered scenario reaches the same states): lines executed only inside failing transactions are
    # arms through which nothing was ever observed to commit
    prof2 = os.path.join(rundir, "prof2")
    os.makedirs(prof2, exist_ok=True)
    renv2 = dict(os.environ, LLVM_PROFILE_FILE=os.path.join(prof2, "p-%p-%m.profraw"))
    jobs2 = []
    for tp in sorted(glob.glob(os.path.join(rundir, "t[0-9]*.ndjson"))):
        sp = tp.replace(".ndjson", ".okscn")
        n, cur = 0, None
        with open(sp, "w") as f:
            for l in open(tp):
                e = json.loads(l)
                if e["kind"] == "reset":
                    if cur is not None:
                        f.write(json.dumps(cur) + "\n")
                    cur = dict(id="ok-%d" % n, deploy=e["deploy"], ops=[])
                    n += 1
                elif e["kind"] == "block":
                    cur["ops"].append(dict(k="block", dh=e["tx"]["a"]["dh"], dt=e["tx"]["a"]["dt"], dns=e["tx"]["a"].get("dns", 0)))
                elif e["kind"] == "tx" and e["res"]["ok"] and not e["fault"]:
                    t = e["tx"]
                    cur["ops"].append(dict(k="tx", c=t["c"], m=t["m"], s=t["s"], a=t["a"], funds=t.get("funds", 0)))
            if cur is not None:
                f.write(json.dumps(cur) + "\n")
        jobs2.append([COVBIN, "run", sp, tp + ".out"])
    with ThreadPoolExecutor(8) as ex:
        list(ex.map(lambda j: run(j, renv2), jobs2))
    files_ok = lines_of(prof2, "ok")
    report, tot, hit = {}, 0, 0
    for f in sorted(files):
        if not f.startswith("/repo/") or "/testing/" in f or not files[f]:
            continue
        lines = files[f]
        unc = sorted(k for k, v in lines.items() if v == 0)
        ranges, start, prev = [], None, None
        for k in unc:
            if start is None:
                start = prev = k
            elif k == prev + 1:
                prev = k
            else:
                ranges.append((start, prev)); start = prev = k
        if start is not None:
            ranges.append((start, prev))
        okl = files_ok.get(f, {})
        failing_only = sorted(k for k, v in lines.items() if v > 0 and okl.get(k, 0) == 0)
        report[f[len("/repo/"):]] = dict(lines=len(lines), executed=len(lines) - len(unc),
                                        uncovered=["%d-%d" % r if r[0] != r[1] else str(r[0]) for r in ranges],
                                        executed_only_in_failing_tx=failing_only)
        tot += len(lines); hit += len(lines) - len(unc)
    os.makedirs(os.path.join(ROOT, "reports"), exist_ok=True)
    json.dump(dict(tier=tier, seed=seed, jobs=len(jobs), failed_jobs=sum(1 for r in rcs if r), lines=tot, executed=hit, files=report),
              open(os.path.join(ROOT, "reports", "impl_coverage.json"), "w"), indent=1)
    for f, r in report.items():
        print("%-62s %4d/%-4d %s" % (f, r["executed"], r["lines"], " ".join(r["uncovered"][:40])))
    print("-- lines executed only inside failing transactions / queries (no committing transaction passed through them):")
    for f, r in report.items():
        if r["executed_only_in_failing_tx"] and ("handle.rs" in f or "reply.rs" in f or "utils.rs" in f or "messages.rs" in f or "state.rs" in f):
            print("%-62s %s" % (f, " ".join(map(str, r["executed_only_in_failing_tx"]))))
    print("coverage: %d/%d instrumented lines of /repo executed by %d harness runs" % (hit, tot, len(jobs)))
    shutil.rmtree(rundir, ignore_errors=True)
    return 0

if __name__ == "__main__":
    sys.exit(main(*(sys.argv[1:2] or ["quick"])))
