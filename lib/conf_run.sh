#!/bin/bash
# usage: conf_run.sh trace.ndjson  -> prints DRIFT summary
cd /verif/spec/trace
TRACE=$1 ONLY=CONF java -XX:+UseParallelGC -Xss1g -Xmx3g -Dtlc2.tool.queue.IStateQueue=StateDeque -DTLA-Library=/verif/spec -cp /opt/veriftools/tla/tla2tools.jar:/opt/veriftools/tla/CommunityModules-deps.jar tlc2.TLC -workers 1 -metadir /verif/work/tlcc_$$ -cleanup -noGenerateSpecTE -config Trace.cfg Trace.tla 2>&1 | grep -E "DRIFT|rror|xception|verflow|REJECT" | head -${2:-15}
rm -rf /verif/work/tlcc_$$
