//! Probe wrappers around cw-multi-test's `Contract` and `Bank` traits: log every
//! execute / reply in call order, log collateral transfers, inject a failure at the N-th call.
use crate::rec::{variant_of, Rec};
use anyhow::{anyhow, Result as AnyResult};
use cosmwasm_std::{
    Addr, Api, BankMsg, BankQuery, Binary, BlockInfo, CustomQuery, Deps, DepsMut, Empty, Env,
    MessageInfo, Querier, Reply, Response, Storage, SubMsgResult,
};
use cw_multi_test::{AppResponse, Bank, BankKeeper, BankSudo, Contract, CosmosRouter, Module};
use schemars::JsonSchema;
use serde::de::DeserializeOwned;
use serde_json::{json, Value};

pub struct Probe {
    pub inner: Box<dyn Contract<Empty>>,
    pub kind: &'static str, // engine | vamm | ifund | fpool | feed | token
    pub rec: Rec,
}

impl Contract<Empty> for Probe {
    fn execute(
        &self,
        deps: DepsMut<Empty>,
        env: Env,
        info: MessageInfo,
        msg: Vec<u8>,
    ) -> AnyResult<Response<Empty>> {
        let on = self.rec.borrow().on;
        if !on {
            return self.inner.execute(deps, env, info, msg);
        }
        let me = env.contract.address.to_string();
        let raw: Value = serde_json::from_slice(&msg).unwrap_or(Value::Null);
        let (variant, args) = variant_of(&raw);
        let (n, inject, to_name, from_name, nargs) = {
            let mut r = self.rec.borrow_mut();
            r.counter += 1;
            let n = r.counter;
            let inject = r.fault_at != 0 && r.fault_at == n;
            if inject {
                r.fault_fired = true;
            }
            (
                n,
                inject,
                r.name(&me),
                r.name(info.sender.as_str()),
                r.norm(&args),
            )
        };
        let res = if inject {
            Err(anyhow!("injected failure at call {}", n))
        } else {
            self.inner.execute(deps, env, info.clone(), msg)
        };
        let ok = res.is_ok();
        {
            let mut r = self.rec.borrow_mut();
            r.calls.push(json!({
                "n": n, "entry": "execute", "to": to_name, "from": from_name,
                "msg": variant, "args": nargs, "ok": ok, "injected": inject
            }));
            // collateral transfers through the cw20 token
            if self.kind == "token" {
                let amt = nargs.get("amount").and_then(|x| x.as_i64()).unwrap_or(-1);
                match variant.as_str() {
                    "transfer" => {
                        let to = nargs.get("recipient").cloned().unwrap_or(Value::Null);
                        r.xfers.push(json!({"n": n, "kind": "transfer", "by": from_name,
                            "from": from_name, "to": to, "amt": amt, "ok": ok}));
                    }
                    "transfer_from" => {
                        let to = nargs.get("recipient").cloned().unwrap_or(Value::Null);
                        let owner = nargs.get("owner").cloned().unwrap_or(Value::Null);
                        r.xfers.push(json!({"n": n, "kind": "transfer_from", "by": from_name,
                            "from": owner, "to": to, "amt": amt, "ok": ok}));
                    }
                    _ => {}
                }
            }
            // swaps: read what the vAMM reports in its own response
            if self.kind == "vamm" && ok && (variant == "swap_input" || variant == "swap_output") {
                if let Ok(resp) = &res {
                    let get = |k: &str| -> Value {
                        resp.attributes
                            .iter()
                            .find(|a| a.key == k)
                            .map(|a| {
                                a.value
                                    .parse::<i64>()
                                    .map(|i| json!(i))
                                    .unwrap_or_else(|_| json!(a.value.clone()))
                            })
                            .unwrap_or(Value::Null)
                    };
                    r.swaps.push(json!({
                        "n": n, "vamm": to_name, "type": get("type"),
                        "dir": nargs.get("direction").cloned().unwrap_or(Value::Null),
                        "quote": get("quote_asset_amount"), "base": get("base_asset_amount"),
                        "limit": nargs.get("base_asset_limit").or(nargs.get("quote_asset_limit")).cloned().unwrap_or(json!(0)),
                        "over": nargs.get("can_go_over_fluctuation").cloned().unwrap_or(json!(true)),
                    }));
                }
            }
        }
        res
    }

    fn instantiate(
        &self,
        deps: DepsMut<Empty>,
        env: Env,
        info: MessageInfo,
        msg: Vec<u8>,
    ) -> AnyResult<Response<Empty>> {
        self.inner.instantiate(deps, env, info, msg)
    }

    fn query(&self, deps: Deps<Empty>, env: Env, msg: Vec<u8>) -> AnyResult<Binary> {
        self.inner.query(deps, env, msg)
    }

    fn sudo(&self, deps: DepsMut<Empty>, env: Env, msg: Vec<u8>) -> AnyResult<Response<Empty>> {
        self.inner.sudo(deps, env, msg)
    }

    fn reply(&self, deps: DepsMut<Empty>, env: Env, msg: Reply) -> AnyResult<Response<Empty>> {
        let on = self.rec.borrow().on;
        if !on {
            return self.inner.reply(deps, env, msg);
        }
        let me = env.contract.address.to_string();
        let id = msg.id;
        let sub_ok = matches!(msg.result, SubMsgResult::Ok(_));
        let res = self.inner.reply(deps, env, msg);
        let ok = res.is_ok();
        {
            let mut r = self.rec.borrow_mut();
            let n = r.counter;
            let to_name = r.name(&me);
            r.calls.push(json!({
                "n": n, "entry": "reply", "to": to_name, "from": to_name,
                "msg": format!("reply_{}", id), "args": {"id": id, "sub_ok": sub_ok}, "ok": ok, "injected": false
            }));
        }
        res
    }

    fn migrate(&self, deps: DepsMut<Empty>, env: Env, msg: Vec<u8>) -> AnyResult<Response<Empty>> {
        self.inner.migrate(deps, env, msg)
    }
}

/// Bank wrapper: logs sends of the collateral denom, injects failures.
pub struct ProbeBank {
    pub inner: BankKeeper,
    pub rec: Rec,
}

impl Bank for ProbeBank {}

impl Module for ProbeBank {
    type ExecT = BankMsg;
    type QueryT = BankQuery;
    type SudoT = BankSudo;

    fn execute<ExecC, QueryC>(
        &self,
        api: &dyn Api,
        storage: &mut dyn Storage,
        router: &dyn CosmosRouter<ExecC = ExecC, QueryC = QueryC>,
        block: &BlockInfo,
        sender: Addr,
        msg: BankMsg,
    ) -> AnyResult<AppResponse>
    where
        ExecC: std::fmt::Debug + Clone + PartialEq + JsonSchema + DeserializeOwned + 'static,
        QueryC: CustomQuery + DeserializeOwned + 'static,
    {
        let on = self.rec.borrow().on;
        if !on {
            return self.inner.execute(api, storage, router, block, sender, msg);
        }
        let (to, amt) = match &msg {
            BankMsg::Send { to_address, amount } => (
                to_address.clone(),
                amount.iter().map(|c| c.amount.u128()).sum::<u128>(),
            ),
            _ => ("".to_string(), 0u128),
        };
        // attached funds of the top-level call: logged, not counted, never faulted
        let is_funds = {
            let mut r = self.rec.borrow_mut();
            match &r.expect_funds {
                Some((f, t, a)) if *f == sender.to_string() && *t == to && *a == amt => {
                    r.expect_funds = None;
                    true
                }
                _ => false,
            }
        };
        if is_funds {
            let res = self
                .inner
                .execute(api, storage, router, block, sender.clone(), msg);
            let mut r = self.rec.borrow_mut();
            let (f, t) = (r.name(sender.as_str()), r.name(&to));
            r.xfers.push(json!({"n": 0, "kind": "funds", "by": f, "from": f, "to": t,
                "amt": amt as i64, "ok": res.is_ok()}));
            return res;
        }
        let (n, inject) = {
            let mut r = self.rec.borrow_mut();
            r.counter += 1;
            let n = r.counter;
            let inject = r.fault_at != 0 && r.fault_at == n;
            if inject {
                r.fault_fired = true;
            }
            (n, inject)
        };
        let res = if inject {
            Err(anyhow!("injected failure at call {}", n))
        } else {
            self.inner
                .execute(api, storage, router, block, sender.clone(), msg)
        };
        let ok = res.is_ok();
        {
            let mut r = self.rec.borrow_mut();
            let (f, t) = (r.name(sender.as_str()), r.name(&to));
            r.calls.push(json!({
                "n": n, "entry": "execute", "to": "bank", "from": f,
                "msg": "bank_send", "args": {"recipient": t, "amount": amt as i64}, "ok": ok, "injected": inject
            }));
            r.xfers.push(json!({"n": n, "kind": "bank_send", "by": f, "from": f, "to": t,
                "amt": amt as i64, "ok": ok}));
        }
        res
    }

    fn sudo<ExecC, QueryC>(
        &self,
        api: &dyn Api,
        storage: &mut dyn Storage,
        router: &dyn CosmosRouter<ExecC = ExecC, QueryC = QueryC>,
        block: &BlockInfo,
        msg: BankSudo,
    ) -> AnyResult<AppResponse>
    where
        ExecC: std::fmt::Debug + Clone + PartialEq + JsonSchema + DeserializeOwned + 'static,
        QueryC: CustomQuery + DeserializeOwned + 'static,
    {
        self.inner.sudo(api, storage, router, block, msg)
    }

    fn query(
        &self,
        api: &dyn Api,
        storage: &dyn Storage,
        querier: &dyn Querier,
        block: &BlockInfo,
        request: BankQuery,
    ) -> AnyResult<Binary> {
        self.inner.query(api, storage, querier, block, request)
    }
}

/// Custom-message module that is never used (cw-multi-test's own FailingModule is not exported).
pub struct NoCustom {}

impl Module for NoCustom {
    type ExecT = Empty;
    type QueryT = Empty;
    type SudoT = Empty;

    fn execute<ExecC, QueryC>(
        &self,
        _api: &dyn Api,
        _storage: &mut dyn Storage,
        _router: &dyn CosmosRouter<ExecC = ExecC, QueryC = QueryC>,
        _block: &BlockInfo,
        _sender: Addr,
        _msg: Empty,
    ) -> AnyResult<AppResponse>
    where
        ExecC: std::fmt::Debug + Clone + PartialEq + JsonSchema + DeserializeOwned + 'static,
        QueryC: CustomQuery + DeserializeOwned + 'static,
    {
        Err(anyhow!("custom messages unsupported"))
    }

    fn sudo<ExecC, QueryC>(
        &self,
        _api: &dyn Api,
        _storage: &mut dyn Storage,
        _router: &dyn CosmosRouter<ExecC = ExecC, QueryC = QueryC>,
        _block: &BlockInfo,
        _msg: Empty,
    ) -> AnyResult<AppResponse>
    where
        ExecC: std::fmt::Debug + Clone + PartialEq + JsonSchema + DeserializeOwned + 'static,
        QueryC: CustomQuery + DeserializeOwned + 'static,
    {
        Err(anyhow!("custom sudo unsupported"))
    }

    fn query(
        &self,
        _api: &dyn Api,
        _storage: &dyn Storage,
        _querier: &dyn Querier,
        _block: &BlockInfo,
        _request: Empty,
    ) -> AnyResult<Binary> {
        Err(anyhow!("custom queries unsupported"))
    }
}
