//! Scenario op -> real ExecuteMsg / QueryMsg of the contract under test.
use crate::world::World;
use cosmwasm_std::{to_binary, Binary, Uint128};
use cw20::Cw20ExecuteMsg;
use margined_common::asset::AssetInfo;
use margined_perp::margined_engine as eng;
use margined_perp::margined_fee_pool as fp;
use margined_perp::margined_insurance_fund as ifd;
use margined_perp::margined_pricefeed as pf;
use margined_perp::margined_vamm as vm;
use serde_json::{json, Value};

fn gi(a: &Value, k: &str) -> i64 {
    a.get(k).and_then(|x| x.as_i64()).unwrap_or(0)
}
fn gu(a: &Value, k: &str) -> Uint128 {
    let i = gi(a, k);
    Uint128::from(if i < 0 { 0u128 } else { i as u128 })
}
fn ou(a: &Value, k: &str) -> Option<Uint128> {
    a.get(k).and_then(|x| x.as_i64()).map(|i| Uint128::from(i as u128))
}
fn gs(a: &Value, k: &str) -> String {
    a.get(k).and_then(|x| x.as_str()).unwrap_or("").to_string()
}
fn dir(a: &Value, k: &str) -> vm::Direction {
    if gs(a, k) == "add" {
        vm::Direction::AddToAmm
    } else {
        vm::Direction::RemoveFromAmm
    }
}

impl World {
    fn oaddr(&self, a: &Value, k: &str) -> Option<String> {
        a.get(k).and_then(|x| x.as_str()).map(|s| self.a(s))
    }

    pub fn asset_info(&self) -> AssetInfo {
        if self.native {
            AssetInfo::NativeToken {
                denom: self.denom.clone(),
            }
        } else {
            AssetInfo::Token {
                contract_addr: cosmwasm_std::Addr::unchecked(self.a("token")),
            }
        }
    }

    /// contract kind of a contract name
    pub fn kind(&self, c: &str) -> &'static str {
        if c.starts_with("vamm") {
            "vamm"
        } else {
            match c {
                "engine" => "engine",
                "ifund" => "ifund",
                "fpool" => "fpool",
                "feed" => "feed",
                "token" => "token",
                _ => "unknown",
            }
        }
    }

    pub fn build_exec(&self, c: &str, m: &str, a: &Value) -> Result<Binary, String> {
        let r = match (self.kind(c), m) {
            ("engine", "open_position") => to_binary(&eng::ExecuteMsg::OpenPosition {
                vamm: self.a(&gs(a, "vamm")),
                side: if gs(a, "side") == "buy" { eng::Side::Buy } else { eng::Side::Sell },
                margin_amount: gu(a, "margin"),
                leverage: gu(a, "leverage"),
                base_asset_limit: gu(a, "limit"),
            }),
            ("engine", "close_position") => to_binary(&eng::ExecuteMsg::ClosePosition {
                vamm: self.a(&gs(a, "vamm")),
                quote_asset_limit: gu(a, "limit"),
            }),
            ("engine", "liquidate") => to_binary(&eng::ExecuteMsg::Liquidate {
                vamm: self.a(&gs(a, "vamm")),
                trader: self.a(&gs(a, "trader")),
                quote_asset_limit: gu(a, "limit"),
            }),
            ("engine", "pay_funding") => to_binary(&eng::ExecuteMsg::PayFunding {
                vamm: self.a(&gs(a, "vamm")),
            }),
            ("engine", "deposit_margin") => to_binary(&eng::ExecuteMsg::DepositMargin {
                vamm: self.a(&gs(a, "vamm")),
                amount: gu(a, "amount"),
            }),
            ("engine", "withdraw_margin") => to_binary(&eng::ExecuteMsg::WithdrawMargin {
                vamm: self.a(&gs(a, "vamm")),
                amount: gu(a, "amount"),
            }),
            ("engine", "set_pause") => to_binary(&eng::ExecuteMsg::SetPause {
                pause: a.get("pause").and_then(|x| x.as_bool()).unwrap_or(true),
            }),
            ("engine", "update_pauser") => to_binary(&eng::ExecuteMsg::UpdatePauser {
                pauser: self.a(&gs(a, "pauser")),
            }),
            ("engine", "add_whitelist") => to_binary(&eng::ExecuteMsg::AddWhitelist {
                address: self.a(&gs(a, "address")),
            }),
            ("engine", "remove_whitelist") => to_binary(&eng::ExecuteMsg::RemoveWhitelist {
                address: self.a(&gs(a, "address")),
            }),
            ("engine", "update_config") => to_binary(&eng::ExecuteMsg::UpdateConfig {
                owner: self.oaddr(a, "owner"),
                insurance_fund: self.oaddr(a, "ifund"),
                fee_pool: self.oaddr(a, "fpool"),
                initial_margin_ratio: ou(a, "imr"),
                maintenance_margin_ratio: ou(a, "mmr"),
                partial_liquidation_ratio: ou(a, "plr"),
                liquidation_fee: ou(a, "liqfee"),
            }),
            ("vamm", "swap_input") => to_binary(&vm::ExecuteMsg::SwapInput {
                direction: dir(a, "dir"),
                quote_asset_amount: gu(a, "amount"),
                base_asset_limit: gu(a, "limit"),
                can_go_over_fluctuation: a.get("over").and_then(|x| x.as_bool()).unwrap_or(false),
            }),
            ("vamm", "swap_output") => to_binary(&vm::ExecuteMsg::SwapOutput {
                direction: dir(a, "dir"),
                base_asset_amount: gu(a, "amount"),
                quote_asset_limit: gu(a, "limit"),
            }),
            ("vamm", "settle_funding") => to_binary(&vm::ExecuteMsg::SettleFunding {}),
            ("vamm", "set_open") => to_binary(&vm::ExecuteMsg::SetOpen {
                open: a.get("open").and_then(|x| x.as_bool()).unwrap_or(true),
            }),
            ("vamm", "update_owner") => to_binary(&vm::ExecuteMsg::UpdateOwner {
                owner: self.a(&gs(a, "owner")),
            }),
            ("vamm", "update_config") => to_binary(&vm::ExecuteMsg::UpdateConfig {
                base_asset_holding_cap: ou(a, "hcap"),
                open_interest_notional_cap: ou(a, "oicap"),
                toll_ratio: ou(a, "toll"),
                spread_ratio: ou(a, "spread"),
                fluctuation_limit_ratio: ou(a, "fluct"),
                margin_engine: self.oaddr(a, "engine"),
                insurance_fund: self.oaddr(a, "ifund"),
                pricefeed: self.oaddr(a, "feed"),
                spot_price_twap_interval: a.get("twapint").and_then(|x| x.as_u64()),
            }),
            ("ifund", "update_owner") => to_binary(&ifd::ExecuteMsg::UpdateOwner {
                owner: self.a(&gs(a, "owner")),
            }),
            ("ifund", "add_vamm") => to_binary(&ifd::ExecuteMsg::AddVamm {
                vamm: self.a(&gs(a, "vamm")),
            }),
            ("ifund", "remove_vamm") => to_binary(&ifd::ExecuteMsg::RemoveVamm {
                vamm: self.a(&gs(a, "vamm")),
            }),
            ("ifund", "withdraw") => to_binary(&ifd::ExecuteMsg::Withdraw {
                token: self.asset_info(),
                amount: gu(a, "amount"),
            }),
            ("ifund", "shutdown_vamms") => to_binary(&ifd::ExecuteMsg::ShutdownVamms {}),
            ("fpool", "update_owner") => to_binary(&fp::ExecuteMsg::UpdateOwner {
                owner: self.a(&gs(a, "owner")),
            }),
            ("fpool", "add_token") => to_binary(&fp::ExecuteMsg::AddToken {
                token: self.collateral_str(),
            }),
            ("fpool", "remove_token") => to_binary(&fp::ExecuteMsg::RemoveToken {
                token: self.collateral_str(),
            }),
            ("fpool", "send_token") => to_binary(&fp::ExecuteMsg::SendToken {
                token: self.collateral_str(),
                amount: gu(a, "amount"),
                recipient: self.a(&gs(a, "recipient")),
            }),
            ("feed", "append_price") => {
                if self.real_feed {
                    to_binary(&pf::ExecuteMsg::AppendPrice {
                        key: gs(a, "key"),
                        price: gu(a, "price"),
                        timestamp: gi(a, "t") as u64,
                    })
                } else {
                    to_binary(&mock_pricefeed::contract::ExecuteMsg::AppendPrice {
                        key: gs(a, "key"),
                        price: gu(a, "price"),
                        timestamp: gi(a, "t") as u64,
                    })
                }
            }
            ("feed", "append_multiple_price") => {
                let prices: Vec<Uint128> = a["prices"].as_array().map(|v| v.iter().map(|x| Uint128::from(x.as_i64().unwrap_or(0) as u128)).collect()).unwrap_or_default();
                let ts: Vec<u64> = a["ts"].as_array().map(|v| v.iter().map(|x| x.as_u64().unwrap_or(0)).collect()).unwrap_or_default();
                if self.real_feed {
                    to_binary(&pf::ExecuteMsg::AppendMultiplePrice { key: gs(a, "key"), prices, timestamps: ts })
                } else {
                    to_binary(&mock_pricefeed::contract::ExecuteMsg::AppendMultiplePrice { key: gs(a, "key"), prices, timestamps: ts })
                }
            }
            ("feed", "update_owner") => {
                if self.real_feed {
                    to_binary(&pf::ExecuteMsg::UpdateOwner {
                        owner: self.a(&gs(a, "owner")),
                    })
                } else {
                    to_binary(&mock_pricefeed::contract::ExecuteMsg::UpdateConfig {
                        owner: Some(self.a(&gs(a, "owner"))),
                    })
                }
            }
            ("token", "increase_allowance") => to_binary(&Cw20ExecuteMsg::IncreaseAllowance {
                spender: self.a(&gs(a, "spender")),
                amount: gu(a, "amount"),
                expires: None,
            }),
            ("token", "decrease_allowance") => to_binary(&Cw20ExecuteMsg::DecreaseAllowance {
                spender: self.a(&gs(a, "spender")),
                amount: gu(a, "amount"),
                expires: None,
            }),
            ("token", "transfer") => to_binary(&Cw20ExecuteMsg::Transfer {
                recipient: self.a(&gs(a, "recipient")),
                amount: gu(a, "amount"),
            }),
            _ => return Err(format!("unknown op {}.{}", c, m)),
        };
        r.map_err(|e| e.to_string())
    }

    /// Build a query message (as JSON) for the named query.
    pub fn build_query(&self, c: &str, q: &str, a: &Value) -> Result<Value, String> {
        let d = |k: &str| -> Value {
            if gs(a, k) == "add" {
                json!("add_to_amm")
            } else {
                json!("remove_from_amm")
            }
        };
        let amt = |k: &str| -> Value { json!(gi(a, k).to_string()) };
        Ok(match (self.kind(c), q) {
            ("vamm", "input_amount") => json!({"input_amount": {"direction": d("dir"), "amount": amt("amount")}}),
            ("vamm", "output_amount") => json!({"output_amount": {"direction": d("dir"), "amount": amt("amount")}}),
            ("vamm", "input_price") => json!({"input_price": {"direction": d("dir"), "amount": amt("amount")}}),
            ("vamm", "output_price") => json!({"output_price": {"direction": d("dir"), "amount": amt("amount")}}),
            ("vamm", "input_twap") => json!({"input_twap": {"direction": d("dir"), "amount": amt("amount")}}),
            ("vamm", "output_twap") => json!({"output_twap": {"direction": d("dir"), "amount": amt("amount")}}),
            ("vamm", "spot_price") => json!({"spot_price": {}}),
            ("vamm", "twap_price") => json!({"twap_price": {"interval": gi(a, "interval")}}),
            ("vamm", "underlying_price") => json!({"underlying_price": {}}),
            ("vamm", "underlying_twap_price") => json!({"underlying_twap_price": {"interval": gi(a, "interval")}}),
            ("vamm", "calc_fee") => json!({"calc_fee": {"quote_asset_amount": amt("amount")}}),
            ("vamm", "is_over_spread_limit") => json!({"is_over_spread_limit": {}}),
            ("vamm", "is_over_fluctuation_limit") => json!({"is_over_fluctuation_limit": {"direction": d("dir"), "base_asset_amount": amt("amount")}}),
            ("engine", "margin_ratio") => json!({"margin_ratio": {"vamm": self.a(&gs(a, "vamm")), "trader": self.a(&gs(a, "trader"))}}),
            ("engine", "free_collateral") => json!({"free_collateral": {"vamm": self.a(&gs(a, "vamm")), "trader": self.a(&gs(a, "trader"))}}),
            ("engine", "position") => json!({"position": {"vamm": self.a(&gs(a, "vamm")), "trader": self.a(&gs(a, "trader"))}}),
            ("engine", "all_positions") => json!({"all_positions": {"trader": self.a(&gs(a, "trader"))}}),
            ("engine", "unrealized_pnl") => json!({"unrealized_pnl": {"vamm": self.a(&gs(a, "vamm")), "trader": self.a(&gs(a, "trader")), "calc_option": gs(a, "opt")}}),
            ("engine", "cumulative_premium_fraction") => json!({"cumulative_premium_fraction": {"vamm": self.a(&gs(a, "vamm"))}}),
            ("engine", "balance_with_funding_payment") => json!({"balance_with_funding_payment": {"trader": self.a(&gs(a, "trader"))}}),
            ("engine", "position_with_funding_payment") => json!({"position_with_funding_payment": {"vamm": self.a(&gs(a, "vamm")), "trader": self.a(&gs(a, "trader"))}}),
            ("engine", "is_whitelisted") => json!({"is_whitelisted": {"address": self.a(&gs(a, "address"))}}),
            ("engine", "config") => json!({"config": {}}),
            ("engine", "pauser") => json!({"get_pauser": {}}),
            ("engine", "whitelist") => json!({"get_whitelist": {}}),
            ("vamm", "config") => json!({"config": {}}),
            ("vamm", "state") => json!({"state": {}}),
            ("vamm", "owner") => json!({"get_owner": {}}),
            ("ifund", "config") => json!({"config": {}}),
            ("ifund", "owner") => json!({"get_owner": {}}),
            ("fpool", "config") => json!({"config": {}}),
            ("fpool", "owner") => json!({"get_owner": {}}),
            ("fpool", "get_token_list") => json!({"get_token_list": {"limit": a.get("limit").cloned().unwrap_or(Value::Null)}}),
            ("feed", "config") => json!({"config": {}}),
            ("engine", "state") => json!({"state": {}}),
            ("ifund", "is_vamm") => json!({"is_vamm": {"vamm": self.a(&gs(a, "vamm"))}}),
            ("ifund", "get_all_vamm") => json!({"get_all_vamm": {"limit": a.get("limit").cloned().unwrap_or(Value::Null)}}),
            ("ifund", "get_vamm_status") => json!({"get_vamm_status": {"vamm": self.a(&gs(a, "vamm"))}}),
            ("ifund", "get_all_vamm_status") => json!({"get_all_vamm_status": {"limit": a.get("limit").cloned().unwrap_or(Value::Null)}}),
            ("fpool", "is_token") => json!({"is_token": {"token": self.collateral_str()}}),
            ("fpool", "get_token_length") => json!({"get_token_length": {}}),
            ("feed", "get_price") => json!({"get_price": {"key": gs(a, "key")}}),
            ("feed", "get_previous_price") => json!({"get_previous_price": {"key": gs(a, "key"), "num_round_back": amt("n")}}),
            ("feed", "get_twap_price") => json!({"get_twap_price": {"key": gs(a, "key"), "interval": gi(a, "interval")}}),
            _ => return Err(format!("unknown query {}.{}", c, q)),
        })
    }
}
