//! Shared recorder: call counter, fault injection point, call / transfer / swap logs.
//! Contains no oracle logic: it only observes and serialises.
use serde_json::{json, Map, Value};
use std::cell::RefCell;
use std::collections::HashMap;
use std::rc::Rc;

#[derive(Default)]
pub struct Recorder {
    /// number of execute-level calls (contract executes + bank sends by contracts) seen in this tx
    pub counter: u64,
    /// call index that is made to fail (0 = none)
    pub fault_at: u64,
    /// true once the injected fault actually fired
    pub fault_fired: bool,
    pub calls: Vec<Value>,
    pub xfers: Vec<Value>,
    pub swaps: Vec<Value>,
    /// address -> short name
    pub names: HashMap<String, String>,
    /// attached-funds transfer expected before call 1 (from, to, amount)
    pub expect_funds: Option<(String, String, u128)>,
    /// recording enabled (off during deployment)
    pub on: bool,
}

pub type Rec = Rc<RefCell<Recorder>>;

impl Recorder {
    pub fn begin_tx(&mut self, fault_at: u64) {
        self.counter = 0;
        self.fault_at = fault_at;
        self.fault_fired = false;
        self.calls.clear();
        self.xfers.clear();
        self.swaps.clear();
        self.expect_funds = None;
        self.on = true;
    }
    pub fn end_tx(&mut self) {
        self.on = false;
        self.fault_at = 0;
    }
    pub fn name(&self, addr: &str) -> String {
        self.names
            .get(addr)
            .cloned()
            .unwrap_or_else(|| addr.to_string())
    }
    /// Normalise a JSON message value: numeric strings -> integers, known addresses -> names.
    pub fn norm(&self, v: &Value) -> Value {
        match v {
            Value::String(s) => {
                if let Some(n) = self.names.get(s) {
                    Value::String(n.clone())
                } else if let Ok(i) = s.parse::<i64>() {
                    json!(i)
                } else {
                    Value::String(s.clone())
                }
            }
            Value::Array(a) => Value::Array(a.iter().map(|x| self.norm(x)).collect()),
            Value::Object(o) => {
                let mut m = Map::new();
                for (k, x) in o {
                    m.insert(k.clone(), self.norm(x));
                }
                Value::Object(m)
            }
            Value::Null => Value::String("none".into()),
            other => other.clone(),
        }
    }
}

/// Split an externally-tagged enum JSON message into (variant, args).
pub fn variant_of(v: &Value) -> (String, Value) {
    if let Value::Object(o) = v {
        if let Some((k, a)) = o.iter().next() {
            return (k.clone(), a.clone());
        }
    }
    if let Value::String(s) = v {
        return (s.clone(), json!({}));
    }
    ("unknown".into(), json!({}))
}
