//! Deployment of the real contracts under cw-multi-test (with probes), transaction execution,
//! and projection of the abstract state that the TLA+ trace specification reads.
use crate::probe::{Probe, ProbeBank};
use crate::rec::{Rec, Recorder};
use cosmwasm_std::testing::{MockApi, MockStorage};
use cosmwasm_std::{
    to_binary, Addr, BankMsg, Binary, BlockInfo, Coin, CosmosMsg, Empty, Order, Timestamp, Uint128,
    WasmMsg,
};
use cw20::{Cw20Coin, Cw20ExecuteMsg, Cw20QueryMsg, MinterResponse};
use cw_multi_test::{
    App, AppBuilder, BankKeeper, Contract, ContractWrapper, Executor, FailingDistribution,
    FailingStaking, WasmKeeper,
};
use crate::probe::NoCustom;
use margined_common::integer::Integer;
use margined_perp::margined_engine as eng;
use margined_perp::margined_fee_pool as fp;
use margined_perp::margined_insurance_fund as ifd;
use margined_perp::margined_pricefeed as pf;
use margined_perp::margined_vamm as vm;
use serde_json::{json, Map, Value};
use std::cell::RefCell;
use std::collections::BTreeMap;
use std::panic::{catch_unwind, AssertUnwindSafe};
use std::rc::Rc;

pub type PApp = App<
    ProbeBank,
    MockApi,
    MockStorage,
    NoCustom,
    WasmKeeper<Empty, Empty>,
    FailingStaking,
    FailingDistribution,
>;

pub const ACCOUNTS: [&str; 10] = [
    "tr1", "tr2", "tr3", "liq", "owner", "pauser", "stranger", "newowner", "drv", "sfx",
];
pub const TRADERS: [&str; 4] = ["tr1", "tr2", "tr3", "liq"];
pub const START_TIME: u64 = 100_000;
pub const START_HEIGHT: u64 = 1000;

pub struct World {
    pub app: PApp,
    pub rec: Rec,
    pub dep: Value,
    pub native: bool,
    pub denom: String,
    pub dec: u32,
    pub real_feed: bool,
    /// name -> address
    pub addr: BTreeMap<String, String>,
    pub vamms: Vec<String>,
    /// who was *given* each role by the deployment's own messages (inputs, not observed state):
    /// the initial value of the specification's ghost role map
    pub given: Value,
}

fn wrap(inner: Box<dyn Contract<Empty>>, kind: &'static str, rec: &Rec) -> Box<dyn Contract<Empty>> {
    Box::new(Probe {
        inner,
        kind,
        rec: rec.clone(),
    })
}

fn geti(v: &Value, k: &str, d: i64) -> i64 {
    v.get(k).and_then(|x| x.as_i64()).unwrap_or(d)
}
fn getb(v: &Value, k: &str, d: bool) -> bool {
    v.get(k).and_then(|x| x.as_bool()).unwrap_or(d)
}
fn gets<'a>(v: &'a Value, k: &str, d: &'a str) -> &'a str {
    v.get(k).and_then(|x| x.as_str()).unwrap_or(d)
}
fn u(i: i64) -> Uint128 {
    Uint128::from(if i < 0 { 0u128 } else { i as u128 })
}

impl World {
    /// Build a deployment from a JSON description (all fields optional; defaults are the scaled image
    /// of the repository's own fixtures).
    pub fn deploy(dep: &Value) -> World {
        let rec: Rec = Rc::new(RefCell::new(Recorder::default()));
        let native = gets(dep, "collateral", "cw20") == "native";
        let big = getb(dep, "big", false);
        let dec = if big { 6 } else { geti(dep, "dec", 2) as u32 };
        let real_feed = gets(dep, "feed", "mock") == "real";
        let d = 10i64.pow(dec);
        let denom = match dec {
            1 => "dwasm",
            2 => "cwasm",
            _ => "uwasm",
        }
        .to_string();
        let trader_bal = geti(dep, "trader_bal", 5000 * d);
        let ifund_bal = geti(dep, "ifund_bal", 5000 * d);
        let engine_bal = geti(dep, "engine_bal", 0);

        let block = BlockInfo {
            height: START_HEIGHT,
            time: Timestamp::from_seconds(START_TIME),
            chain_id: "verif".to_string(),
        };
        let bank = ProbeBank {
            inner: BankKeeper::new(),
            rec: rec.clone(),
        };
        let denom2 = denom.clone();
        let taddr = trader_addrs();
        let mut app: PApp = AppBuilder::new()
            .with_bank(bank)
            .with_custom(NoCustom {})
            .with_block(block)
            .build(|router, _api, storage| {
                if native {
                    for t in TRADERS.iter().chain(["sfx"].iter()) {
                        router
                            .bank
                            .inner
                            .init_balance(
                                storage,
                                &Addr::unchecked(taddr[*t].clone()),
                                vec![Coin::new(trader_bal as u128, denom2.clone())],
                            )
                            .unwrap();
                    }
                    router
                        .bank
                        .inner
                        .init_balance(
                            storage,
                            &Addr::unchecked("bank"),
                            vec![Coin::new(1_000_000_000_000_000_000u128, denom2.clone())],
                        )
                        .unwrap();
                }
            });

        let owner = Addr::unchecked("owner");
        let mut addr: BTreeMap<String, String> = trader_addrs();

        let token_id = app.store_code(wrap(
            Box::new(ContractWrapper::new(
                cw20_base::contract::execute,
                cw20_base::contract::instantiate,
                cw20_base::contract::query,
            )),
            "token",
            &rec,
        ));
        let engine_id = app.store_code(wrap(
            Box::new(
                ContractWrapper::new(
                    margined_engine::contract::execute,
                    margined_engine::contract::instantiate,
                    margined_engine::contract::query,
                )
                .with_reply(margined_engine::contract::reply),
            ),
            "engine",
            &rec,
        ));
        let vamm_id = app.store_code(wrap(
            Box::new(ContractWrapper::new(
                margined_vamm::contract::execute,
                margined_vamm::contract::instantiate,
                margined_vamm::contract::query,
            )),
            "vamm",
            &rec,
        ));
        let ifund_id = app.store_code(wrap(
            Box::new(ContractWrapper::new(
                margined_insurance_fund::contract::execute,
                margined_insurance_fund::contract::instantiate,
                margined_insurance_fund::contract::query,
            )),
            "ifund",
            &rec,
        ));
        let fpool_id = app.store_code(wrap(
            Box::new(ContractWrapper::new(
                margined_fee_pool::contract::execute,
                margined_fee_pool::contract::instantiate,
                margined_fee_pool::contract::query,
            )),
            "fpool",
            &rec,
        ));
        let feed_id = if real_feed {
            app.store_code(wrap(
                Box::new(ContractWrapper::new(
                    margined_pricefeed::contract::execute,
                    margined_pricefeed::contract::instantiate,
                    margined_pricefeed::contract::query,
                )),
                "feed",
                &rec,
            ))
        } else {
            app.store_code(wrap(
                Box::new(ContractWrapper::new(
                    mock_pricefeed::contract::execute,
                    mock_pricefeed::contract::instantiate,
                    mock_pricefeed::contract::query,
                )),
                "feed",
                &rec,
            ))
        };

        // collateral token (always deployed; used only when !native)
        let mut init_bal: Vec<Cw20Coin> = vec![];
        for t in TRADERS.iter().chain(["sfx"].iter()) {
            init_bal.push(Cw20Coin {
                address: addr[*t].clone(),
                amount: u(trader_bal),
            });
        }
        let token = app
            .instantiate_contract(
                token_id,
                owner.clone(),
                &cw20_base::msg::InstantiateMsg {
                    name: "USDC".to_string(),
                    symbol: "USDC".to_string(),
                    decimals: dec as u8,
                    initial_balances: init_bal,
                    mint: Some(MinterResponse {
                        minter: owner.to_string(),
                        cap: None,
                    }),
                    marketing: None,
                },
                &[],
                "token",
                None,
            )
            .unwrap();
        addr.insert("token".into(), token.to_string());

        let fpool = app
            .instantiate_contract(fpool_id, owner.clone(), &fp::InstantiateMsg {}, &[], "fee_pool", None)
            .unwrap();
        addr.insert("fpool".into(), fpool.to_string());

        let e = dep.get("engine").cloned().unwrap_or(json!({}));
        let collateral = if native {
            denom.clone()
        } else {
            token.to_string()
        };
        let engine = app
            .instantiate_contract(
                engine_id,
                owner.clone(),
                &eng::InstantiateMsg {
                    pauser: gets(&e, "pauser", "owner").to_string(),
                    insurance_fund: "insurance_fund".to_string(),
                    fee_pool: fpool.to_string(),
                    eligible_collateral: collateral.clone(),
                    initial_margin_ratio: u(geti(&e, "imr", 5 * d / 100)),
                    maintenance_margin_ratio: u(geti(&e, "mmr", 5 * d / 100)),
                    liquidation_fee: u(geti(&e, "liqfee", 5 * d / 100)),
                },
                &[],
                "engine",
                None,
            )
            .unwrap();
        addr.insert("engine".into(), engine.to_string());

        let ifund = app
            .instantiate_contract(
                ifund_id,
                owner.clone(),
                &ifd::InstantiateMsg {
                    engine: engine.to_string(),
                },
                &[],
                "insurance_fund",
                None,
            )
            .unwrap();
        addr.insert("ifund".into(), ifund.to_string());

        app.execute_contract(
            owner.clone(),
            engine.clone(),
            &eng::ExecuteMsg::UpdateConfig {
                owner: None,
                insurance_fund: Some(ifund.to_string()),
                fee_pool: None,
                initial_margin_ratio: None,
                maintenance_margin_ratio: None,
                partial_liquidation_ratio: Some(u(geti(&e, "plr", 0))),
                liquidation_fee: None,
            },
            &[],
        )
        .unwrap();

        let feed = if real_feed {
            app.instantiate_contract(feed_id, owner.clone(), &pf::InstantiateMsg { oracle_hub_contract: "oracle_hub0000".to_string() }, &[], "pricefeed", None)
                .unwrap()
        } else {
            app.instantiate_contract(
                feed_id,
                owner.clone(),
                &mock_pricefeed::contract::InstantiateMsg {
                    oracle_hub_contract: "oracle_hub0000".to_string(),
                },
                &[],
                "pricefeed",
                None,
            )
            .unwrap()
        };
        addr.insert("feed".into(), feed.to_string());

        // fund the insurance fund / vault
        if native {
            let bankacc = Addr::unchecked("bank");
            if ifund_bal > 0 {
                app.execute(
                    bankacc.clone(),
                    CosmosMsg::Bank(BankMsg::Send {
                        to_address: ifund.to_string(),
                        amount: vec![Coin::new(ifund_bal as u128, denom.clone())],
                    }),
                )
                .unwrap();
            }
            if engine_bal > 0 {
                app.execute(
                    bankacc,
                    CosmosMsg::Bank(BankMsg::Send {
                        to_address: engine.to_string(),
                        amount: vec![Coin::new(engine_bal as u128, denom.clone())],
                    }),
                )
                .unwrap();
            }
        } else {
            if ifund_bal > 0 {
                app.execute_contract(
                    owner.clone(),
                    token.clone(),
                    &Cw20ExecuteMsg::Mint {
                        recipient: ifund.to_string(),
                        amount: u(ifund_bal),
                    },
                    &[],
                )
                .unwrap();
            }
            if engine_bal > 0 {
                app.execute_contract(
                    owner.clone(),
                    token.clone(),
                    &Cw20ExecuteMsg::Mint {
                        recipient: engine.to_string(),
                        amount: u(engine_bal),
                    },
                    &[],
                )
                .unwrap();
            }
            let allow = geti(dep, "allowance", if big { 1_000_000_000_000_000 } else { 1_000_000_000 });
            if allow > 0 {
                for t in TRADERS.iter().chain(["sfx"].iter()) {
                    app.execute_contract(
                        Addr::unchecked(addr[*t].clone()),
                        token.clone(),
                        &Cw20ExecuteMsg::IncreaseAllowance {
                            spender: engine.to_string(),
                            amount: u(allow),
                            expires: None,
                        },
                        &[],
                    )
                    .unwrap();
                }
            }
        }

        let fpool_bal = geti(dep, "fpool_bal", 0);
        if fpool_bal > 0 {
            if native {
                app.execute(
                    Addr::unchecked("bank"),
                    CosmosMsg::Bank(BankMsg::Send {
                        to_address: fpool.to_string(),
                        amount: vec![Coin::new(fpool_bal as u128, denom.clone())],
                    }),
                )
                .unwrap();
            } else {
                app.execute_contract(
                    owner.clone(),
                    token.clone(),
                    &Cw20ExecuteMsg::Mint {
                        recipient: fpool.to_string(),
                        amount: u(fpool_bal),
                    },
                    &[],
                )
                .unwrap();
            }
        }

        // vAMMs
        let default_vamms = json!([{}]);
        let vlist = dep
            .get("vamms")
            .and_then(|x| x.as_array())
            .cloned()
            .unwrap_or_else(|| default_vamms.as_array().unwrap().clone());
        let direct = getb(dep, "direct", false);
        let mut vamms = vec![];
        let oracle = geti(dep, "oracle", 10 * d);
        for (i, vc) in vlist.iter().enumerate() {
            let name = format!("vamm{}", i + 1);
            let base_asset = match i {
                0 => "ETH",
                1 => "BTC",
                2 => "SOL",
                _ => "ADA",
            };
            let vaddr = app
                .instantiate_contract(
                    vamm_id,
                    owner.clone(),
                    &vm::InstantiateMsg {
                        decimals: geti(vc, "dec", dec as i64) as u8,
                        quote_asset: "USD".to_string(),
                        base_asset: base_asset.to_string(),
                        quote_asset_reserve: u(geti(vc, "x", 1000 * d)),
                        base_asset_reserve: u(geti(vc, "y", 100 * d)),
                        funding_period: geti(vc, "period", 3600) as u64,
                        toll_ratio: u(geti(vc, "toll", 0)),
                        spread_ratio: u(geti(vc, "spread", 0)),
                        fluctuation_limit_ratio: u(geti(vc, "fluct", 0)),
                        pricefeed: feed.to_string(),
                        margin_engine: None,
                        insurance_fund: if getb(vc, "ifund_none", false) { None } else { Some(ifund.to_string()) },
                    },
                    &[],
                    name.clone(),
                    None,
                )
                .unwrap();
            addr.insert(name.clone(), vaddr.to_string());
            let me = if direct {
                "drv".to_string()
            } else {
                engine.to_string()
            };
            let hcap = geti(vc, "hcap", 0);
            let oicap = geti(vc, "oicap", 0);
            app.execute_contract(
                owner.clone(),
                vaddr.clone(),
                &vm::ExecuteMsg::UpdateConfig {
                    base_asset_holding_cap: if hcap > 0 { Some(u(hcap)) } else { None },
                    open_interest_notional_cap: if oicap > 0 { Some(u(oicap)) } else { None },
                    toll_ratio: None,
                    spread_ratio: None,
                    fluctuation_limit_ratio: None,
                    margin_engine: Some(me),
                    insurance_fund: None,
                    pricefeed: None,
                    spot_price_twap_interval: vc.get("twapint").and_then(|x| x.as_u64()),
                },
                &[],
            )
            .unwrap();
            if getb(vc, "open", true) {
                app.execute_contract(owner.clone(), vaddr.clone(), &vm::ExecuteMsg::SetOpen { open: true }, &[])
                    .unwrap();
            }
            if getb(vc, "registered", true) {
                // registration can legitimately fail (decimals mismatch): ignore the result
                let _ = app.execute_contract(
                    owner.clone(),
                    ifund.clone(),
                    &ifd::ExecuteMsg::AddVamm {
                        vamm: vaddr.to_string(),
                    },
                    &[],
                );
            }
            // oracle price for this vAMM's base asset
            if real_feed {
                app.execute_contract(
                    owner.clone(),
                    feed.clone(),
                    &pf::ExecuteMsg::AppendPrice {
                        key: base_asset.to_string(),
                        price: u(geti(vc, "oracle", oracle)),
                        timestamp: START_TIME,
                    },
                    &[],
                )
                .unwrap();
            }
            vamms.push(name);
        }
        if !real_feed {
            app.execute_contract(
                owner.clone(),
                feed.clone(),
                &mock_pricefeed::contract::ExecuteMsg::AppendPrice {
                    key: "ETH".to_string(),
                    price: u(oracle),
                    timestamp: START_TIME,
                },
                &[],
            )
            .unwrap();
        }
        // fee pool token list (so SendToken can work)
        let _ = app.execute_contract(
            owner.clone(),
            fpool.clone(),
            &fp::ExecuteMsg::AddToken {
                token: collateral.clone(),
            },
            &[],
        );

        {
            let mut r = rec.borrow_mut();
            for (n, a) in addr.iter() {
                r.names.insert(a.clone(), n.clone());
            }
            r.names.insert(denom.clone(), "collateral".to_string());
        }
        let mut gv = serde_json::Map::new();
        for (i, vc) in vlist.iter().enumerate() {
            gv.insert(format!("vamm{}", i + 1), json!({
                "owner": "owner",
                "ifund": if getb(vc, "ifund_none", false) { "" } else { "ifund" },
                "engine": if direct { "drv" } else { "engine" },
            }));
        }
        let given = json!({
            "vamm": Value::Object(gv),
            "engine": {"owner": "owner", "pauser": gets(&e, "pauser", "owner"), "ifund": "ifund", "fpool": "fpool"},
            "ifund": {"owner": "owner", "engine": "engine"},
            "fpool": {"owner": "owner"},
            "feed": {"owner": "owner"},
        });
        World {
            given,
            app,
            rec,
            dep: dep.clone(),
            native,
            denom,
            dec,
            real_feed,
            addr,
            vamms,
        }
    }

    /// name -> address; "name+suffix" resolves the name and appends the suffix (malformed addresses)
    pub fn a(&self, name: &str) -> String {
        if let Some((n, suffix)) = name.split_once('+') {
            return format!("{}{}", self.a(n), suffix);
        }
        // "upper:name": the same address in upper case (a different account as far as the chain is concerned)
        if let Some(n) = name.strip_prefix("upper:") {
            return self.a(n).to_uppercase();
        }
        self.addr.get(name).cloned().unwrap_or_else(|| name.to_string())
    }

    pub fn collateral_str(&self) -> String {
        if self.native {
            self.denom.clone()
        } else {
            self.a("token")
        }
    }

    pub fn base_asset(&self, vamm: &str) -> &'static str {
        match vamm {
            "vamm1" => "ETH",
            "vamm2" => "BTC",
            "vamm3" => "SOL",
            _ => "ADA",
        }
    }

    /// digest of the complete chain storage (all contracts' storage, contract registry, bank)
    pub fn digest(&self) -> String {
        let mut h: u64 = 0xcbf29ce484222325;
        let mut n: u64 = 0;
        self.app.read_module(|_r, _a, storage| {
            for (k, v) in storage.range(None, None, Order::Ascending) {
                for b in k.iter().chain([0xffu8].iter()).chain(v.iter()).chain([0xfeu8].iter()) {
                    h ^= *b as u64;
                    h = h.wrapping_mul(0x100000001b3);
                }
                n += 1;
            }
        });
        format!("{:016x}-{}", h, n)
    }

    pub fn balance(&self, name: &str) -> i64 {
        let a = self.a(name);
        if self.native {
            self.app
                .wrap()
                .query_balance(a, self.denom.clone())
                .map(|c| c.amount.u128() as i64)
                .unwrap_or(-1)
        } else {
            let r: Result<cw20::BalanceResponse, _> = self
                .app
                .wrap()
                .query_wasm_smart(self.a("token"), &Cw20QueryMsg::Balance { address: a });
            r.map(|b| b.balance.u128() as i64).unwrap_or(-1)
        }
    }

    pub fn allowance(&self, name: &str) -> i64 {
        if self.native {
            return 0;
        }
        let r: Result<cw20::AllowanceResponse, _> = self.app.wrap().query_wasm_smart(
            self.a("token"),
            &Cw20QueryMsg::Allowance {
                owner: self.a(name),
                spender: self.a("engine"),
            },
        );
        r.map(|b| b.allowance.u128() as i64).unwrap_or(-1)
    }

    fn raw(&self, contract: &str) -> Vec<(Vec<u8>, Vec<u8>)> {
        self.app.dump_wasm_raw(&Addr::unchecked(self.a(contract)))
    }

    fn nm(&self, s: &str) -> String {
        self.rec.borrow().name(s)
    }

    /// project the abstract state (see DESIGN.md appendix C)
    pub fn project(&self) -> Value {
        let blk = self.app.block_info();
        let mut post = Map::new();
        post.insert("blk".into(), json!({"h": blk.height, "t": blk.time.seconds()}));
        post.insert("given".into(), self.given.clone());

        // ---- vAMMs
        let mut vobj = Map::new();
        for v in self.vamms.iter() {
            let raw = self.raw(v);
            let cfg = find_json(&raw, &lp(b"config")).unwrap_or(json!({}));
            let st = find_json(&raw, &lp(b"state")).unwrap_or(json!({}));
            let owner = find_json(&raw, b"owner").unwrap_or(Value::Null);
            let mut snaps: Vec<(u64, Value)> = vec![];
            let pre = lp(b"reserve_snapshot");
            for (k, val) in raw.iter() {
                if k.starts_with(&pre) && k.len() == pre.len() + 8 {
                    let mut idx = [0u8; 8];
                    idx.copy_from_slice(&k[pre.len()..]);
                    let j: Value = serde_json::from_slice(val).unwrap_or(json!({}));
                    snaps.push((
                        u64::from_be_bytes(idx),
                        json!({
                            "x": num(&j["quote_asset_reserve"]), "y": num(&j["base_asset_reserve"]),
                            "t": num(&j["timestamp"]) / 1_000_000_000, "h": num(&j["block_height"])
                        }),
                    ));
                }
            }
            snaps.sort_by_key(|x| x.0);
            let counter = find_json(&raw, &lp(b"reserve_snapshot_counter"))
                .map(|x| num(&x))
                .unwrap_or(0);
            vobj.insert(
                v.clone(),
                json!({
                    "cfg": {
                        "engine": self.nm(cfg["margin_engine"].as_str().unwrap_or("")),
                        "ifund": self.nm(cfg["insurance_fund"].as_str().unwrap_or("")),
                        "feed": self.nm(cfg["pricefeed"].as_str().unwrap_or("")),
                        "base": cfg["base_asset"].as_str().unwrap_or(""),
                        "D": num(&cfg["decimals"]), "toll": num(&cfg["toll_ratio"]),
                        "spread": num(&cfg["spread_ratio"]), "fluct": num(&cfg["fluctuation_limit_ratio"]),
                        "hcap": num(&cfg["base_asset_holding_cap"]), "oicap": num(&cfg["open_interest_notional_cap"]),
                        "twapint": num(&cfg["spot_price_twap_interval"]), "period": num(&cfg["funding_period"]),
                        "buffer": num(&cfg["funding_buffer_period"])
                    },
                    "st": {
                        "open": st["open"].as_bool().unwrap_or(false),
                        "x": num(&st["quote_asset_reserve"]), "y": num(&st["base_asset_reserve"]),
                        "total": num(&st["total_position_size"]), "rate": num(&st["funding_rate"]),
                        "next": num(&st["next_funding_time"])
                    },
                    "owner": match &owner { Value::String(s) => self.nm(s), _ => "none".to_string() },
                    "snaps": snaps.into_iter().map(|x| x.1).collect::<Vec<_>>(),
                    "nsnaps": counter
                }),
            );
        }
        post.insert("vamm".into(), Value::Object(vobj));

        // ---- engine
        let raw = self.raw("engine");
        let cfg = find_json(&raw, &lp(b"config")).unwrap_or(json!({}));
        let st = find_json(&raw, &lp(b"state")).unwrap_or(json!({}));
        let pauser = find_json(&raw, b"pauser").unwrap_or(Value::Null);
        let wl = find_json(&raw, b"whitelist").unwrap_or(json!([]));
        let is_native = cfg["eligible_collateral"].get("native_token").is_some();
        let mut pos_by: BTreeMap<(String, String), Value> = BTreeMap::new();
        let mut extra: Vec<Value> = vec![];
        let ppre = lp(b"position");
        let mut npos = 0;
        for (k, val) in raw.iter() {
            if k.starts_with(&ppre) {
                npos += 1;
                let j: Value = serde_json::from_slice(val).unwrap_or(json!({}));
                let v = self.nm(j["vamm"].as_str().unwrap_or(""));
                let t = self.nm(j["trader"].as_str().unwrap_or(""));
                let p = json!({
                    "exists": true,
                    "dir": if j["direction"].as_str().unwrap_or("") == "add_to_amm" {"add"} else {"rem"},
                    "size": num(&j["size"]), "margin": num(&j["margin"]), "notional": num(&j["notional"]),
                    "lupf": num(&j["last_updated_premium_fraction"]), "blk": num(&j["block_number"])
                });
                if self.vamms.contains(&v) && TRADERS.contains(&t.as_str()) {
                    pos_by.insert((v, t), p);
                } else {
                    extra.push(json!({"vamm": v, "trader": t, "pos": p}));
                }
            }
        }
        let mut pos = Map::new();
        let mut posq = Map::new();
        let mut vmap = Map::new();
        for v in self.vamms.iter() {
            // the same positions as the engine's own Position query answers them (the interface view: a record
            // the engine can no longer find is not a position any more, whatever the storage still holds)
            let mut qt = Map::new();
            for t in TRADERS.iter() {
                let q = self.query_raw("engine", &json!({"position": {"vamm": self.a(v), "trader": self.a(t)}}));
                let p = match q {
                    Ok(j) if j["trader"].as_str() == Some(self.a(t).as_str()) => json!({
                        "exists": true,
                        "dir": if j["direction"].as_str().unwrap_or("") == "add_to_amm" {"add"} else {"rem"},
                        "size": num(&j["size"]), "margin": num(&j["margin"]), "notional": num(&j["notional"]),
                        "lupf": num(&j["last_updated_premium_fraction"]), "blk": num(&j["block_number"])
                    }),
                    _ => json!({"exists": false, "dir": "add", "size": 0, "margin": 0, "notional": 0, "lupf": 0, "blk": 0}),
                };
                qt.insert(t.to_string(), p);
            }
            posq.insert(v.clone(), Value::Object(qt));
            let mut pt = Map::new();
            for t in TRADERS.iter() {
                let p = pos_by.get(&(v.clone(), t.to_string())).cloned().unwrap_or(json!({
                    "exists": false, "dir": "add", "size": 0, "margin": 0, "notional": 0, "lupf": 0, "blk": 0
                }));
                pt.insert(t.to_string(), p);
            }
            pos.insert(v.clone(), Value::Object(pt));
            let mut key = lp(b"vamm-map");
            key.extend_from_slice(self.a(v).as_bytes());
            let vmj = find_json(&raw, &key).unwrap_or(json!({"last_restriction_block": 0, "cumulative_premium_fractions": []}));
            vmap.insert(
                v.clone(),
                json!({
                    "restr": num(&vmj["last_restriction_block"]),
                    "cpf": vmj["cumulative_premium_fractions"].as_array().map(|a| a.iter().map(|x| json!(num(x))).collect::<Vec<_>>()).unwrap_or_default()
                }),
            );
        }
        post.insert(
            "eng".into(),
            json!({
                "cfg": {
                    "owner": self.nm(cfg["owner"].as_str().unwrap_or("")),
                    "ifund": self.nm(cfg["insurance_fund"].as_str().unwrap_or("")),
                    "fpool": self.nm(cfg["fee_pool"].as_str().unwrap_or("")),
                    "D": num(&cfg["decimals"]), "imr": num(&cfg["initial_margin_ratio"]),
                    "mmr": num(&cfg["maintenance_margin_ratio"]), "plr": num(&cfg["partial_liquidation_ratio"]),
                    "liqfee": num(&cfg["liquidation_fee"]), "native": is_native
                },
                "st": {"oi": num(&st["open_interest_notional"]), "bad_debt": num(&st["prepaid_bad_debt"]),
                       "paused": st["pause"].as_bool().unwrap_or(false)},
                "pauser": match &pauser { Value::String(s) => self.nm(s), _ => "none".to_string() },
                "whitelist": wl.as_array().map(|a| a.iter().map(|x| json!(self.nm(x.as_str().unwrap_or("")))).collect::<Vec<_>>()).unwrap_or_default(),
                "tmp": {"swap": has_key(&raw, &lp(b"tmp-swap")), "funds": has_key(&raw, &lp(b"sent-funds")),
                        "liq": has_key(&raw, &lp(b"tmp-liquidator"))},
                "pos": Value::Object(pos), "posq": Value::Object(posq), "vmap": Value::Object(vmap),
                "npos": npos, "pos_extra": extra
            }),
        );

        // ---- insurance fund
        let raw = self.raw("ifund");
        let cfg = find_json(&raw, &lp(b"config")).unwrap_or(json!({}));
        let owner = find_json(&raw, b"owner").unwrap_or(Value::Null);
        let list = find_json(&raw, b"vamm-list");
        post.insert(
            "ifund".into(),
            json!({
                "owner": match &owner { Value::String(s) => self.nm(s), _ => "none".to_string() },
                "engine": self.nm(cfg["engine"].as_str().unwrap_or("")),
                "has_list": list.is_some(),
                "vamms": list.unwrap_or(json!([])).as_array().map(|a| a.iter().map(|x| json!(self.nm(x.as_str().unwrap_or("")))).collect::<Vec<_>>()).unwrap_or_default()
            }),
        );

        // ---- fee pool
        let raw = self.raw("fpool");
        let owner = find_json(&raw, b"owner").unwrap_or(Value::Null);
        let list = find_json(&raw, b"token-list").unwrap_or(json!([]));
        post.insert(
            "fpool".into(),
            json!({
                "owner": match &owner { Value::String(s) => self.nm(s), _ => "none".to_string() },
                "tokens": list.as_array().map(|a| a.iter().map(|x| {
                    if let Some(t) = x.get("token") { json!(self.nm(t["contract_addr"].as_str().unwrap_or(""))) }
                    else { json!(self.nm(x["native_token"]["denom"].as_str().unwrap_or(""))) }
                }).collect::<Vec<_>>()).unwrap_or_default()
            }),
        );

        // ---- price feed
        let raw = self.raw("feed");
        if self.real_feed {
            let owner = find_json(&raw, b"owner").unwrap_or(Value::Null);
            let mut rounds = Map::new();
            let pre = lp(b"prices");
            for key in ["ETH", "BTC", "SOL", "ADA"].iter() {
                let mut k = pre.clone();
                k.extend_from_slice(key.as_bytes());
                let arr = find_json(&raw, &k).unwrap_or(json!([]));
                rounds.insert(
                    key.to_string(),
                    json!(arr.as_array().map(|a| a.iter().map(|x| json!({
                        "id": num(&x["round_id"]), "price": num(&x["price"]), "t": num(&x["timestamp"]) / 1_000_000_000
                    })).collect::<Vec<_>>()).unwrap_or_default()),
                );
            }
            post.insert(
                "feed".into(),
                json!({"kind": "real", "owner": match &owner { Value::String(s) => self.nm(s), _ => "none".to_string() },
                       "price": 0, "rounds": Value::Object(rounds)}),
            );
        } else {
            let cfg = find_json(&raw, &lp(b"config")).unwrap_or(json!({}));
            let price = find_json(&raw, &lp(b"prices")).map(|x| num(&x)).unwrap_or(0);
            post.insert(
                "feed".into(),
                json!({"kind": "mock", "owner": self.nm(cfg["owner"].as_str().unwrap_or("")),
                       "price": price, "rounds": {"ETH": [], "BTC": [], "SOL": [], "ADA": []}}),
            );
        }

        // ---- balances / allowances
        let mut bal = Map::new();
        let mut allow = Map::new();
        for a in ACCOUNTS.iter() {
            bal.insert(a.to_string(), json!(self.balance(a)));
            allow.insert(a.to_string(), json!(self.allowance(a)));
        }
        for c in ["engine", "ifund", "fpool", "feed", "token"].iter() {
            bal.insert(c.to_string(), json!(self.balance(c)));
        }
        for v in ["vamm1", "vamm2", "vamm3", "vamm4"].iter() {
            bal.insert(v.to_string(), json!(if self.vamms.contains(&v.to_string()) { self.balance(v) } else { 0 }));
        }
        post.insert("bal".into(), Value::Object(bal));
        post.insert("allow".into(), Value::Object(allow));
        Value::Object(post)
    }

    pub fn advance(&mut self, dh: u64, dt: u64, dns: u64) {
        self.app.update_block(|b| {
            b.height += dh;
            b.time = b.time.plus_seconds(dt).plus_nanos(dns);
        });
    }

    /// Execute one transaction on a probed contract. Panics inside the contracts are data.
    pub fn exec(&mut self, sender: &str, contract: &str, msg: Binary, funds: i64, fault: u64) -> (bool, String) {
        let caddr = self.a(contract);
        let saddr = Addr::unchecked(self.a(sender));
        let coins = if funds > 0 {
            vec![Coin::new(funds as u128, self.denom.clone())]
        } else {
            vec![]
        };
        {
            let mut r = self.rec.borrow_mut();
            r.begin_tx(fault);
            if funds > 0 {
                r.expect_funds = Some((saddr.to_string(), caddr.clone(), funds as u128));
            }
        }
        let cm = CosmosMsg::Wasm(WasmMsg::Execute {
            contract_addr: caddr,
            msg,
            funds: coins,
        });
        let app = &mut self.app;
        let res = catch_unwind(AssertUnwindSafe(|| app.execute(saddr, cm)));
        self.rec.borrow_mut().end_tx();
        match res {
            Ok(Ok(_)) => (true, String::new()),
            Ok(Err(e)) => (false, format!("{}", e.root_cause())),
            Err(p) => {
                let s = if let Some(s) = p.downcast_ref::<String>() {
                    s.clone()
                } else if let Some(s) = p.downcast_ref::<&str>() {
                    s.to_string()
                } else {
                    "?".to_string()
                };
                (false, format!("panic: {}", s))
            }
        }
    }

    pub fn query_raw(&self, contract: &str, msg: &Value) -> Result<Value, String> {
        use cosmwasm_std::{ContractResult, Querier, SystemResult};
        let caddr = self.a(contract);
        let app = &self.app;
        let b = Binary::from(serde_json::to_vec(msg).map_err(|e| e.to_string())?);
        let req: cosmwasm_std::QueryRequest<Empty> =
            cosmwasm_std::QueryRequest::Wasm(cosmwasm_std::WasmQuery::Smart {
                contract_addr: caddr,
                msg: b,
            });
        let bin = to_binary(&req).map_err(|e| e.to_string())?;
        let res = catch_unwind(AssertUnwindSafe(|| app.raw_query(bin.as_slice())));
        match res {
            Ok(SystemResult::Ok(ContractResult::Ok(v))) => {
                serde_json::from_slice::<Value>(v.as_slice()).map_err(|e| e.to_string())
            }
            Ok(SystemResult::Ok(ContractResult::Err(e))) => Err(e),
            Ok(SystemResult::Err(e)) => Err(e.to_string()),
            Err(_) => Err("panic:".to_string()),
        }
    }
}

/// Real-looking (long) addresses for the accounts; tr2 and tr3 share their first 32 bytes, so a
/// storage key built from a truncated address would alias them.
pub fn trader_addrs() -> BTreeMap<String, String> {
    let mut addr: BTreeMap<String, String> = BTreeMap::new();
    for a in ACCOUNTS.iter() {
        addr.insert(a.to_string(), a.to_string());
    }
    let prefix = "cosmwasm1sharedprefix00000000000"; // 32 bytes
    addr.insert("tr1".into(), "cosmwasm1trader1qqqqqqqqqqqqqqqqqqqqqqqqqqqqqq".into());
    addr.insert("tr2".into(), format!("{}tr2", prefix));
    addr.insert("tr3".into(), format!("{}tr3", prefix));
    addr.insert("liq".into(), "cosmwasm1liquidatorqqqqqqqqqqqqqqqqqqqqqqqqq".into());
    // "sfx": an account whose address is tr1's address without its first two bytes ("co"), so that
    // (vamm + "co", sfx) and (vamm, tr1) concatenate to the same byte string
    addr.insert("sfx".into(), "smwasm1trader1qqqqqqqqqqqqqqqqqqqqqqqqqqqqqq".into());
    addr
}

pub fn lp(ns: &[u8]) -> Vec<u8> {
    let mut out = vec![(ns.len() >> 8) as u8, (ns.len() & 0xff) as u8];
    out.extend_from_slice(ns);
    out
}

fn find_json(raw: &[(Vec<u8>, Vec<u8>)], key: &[u8]) -> Option<Value> {
    raw.iter()
        .find(|(k, _)| k.as_slice() == key)
        .and_then(|(_, v)| serde_json::from_slice(v).ok())
}

fn has_key(raw: &[(Vec<u8>, Vec<u8>)], key: &[u8]) -> bool {
    raw.iter().any(|(k, _)| k.as_slice() == key)
}

/// JSON number-or-numeric-string -> i64 (Uint128 / Integer / Timestamp are strings in cosmwasm JSON)
pub fn num(v: &Value) -> i64 {
    match v {
        Value::Number(n) => n.as_i64().unwrap_or(0),
        Value::String(s) => s.parse::<i128>().map(|x| x as i64).unwrap_or(0),
        _ => 0,
    }
}

#[allow(dead_code)]
pub fn int_of(i: Integer) -> i64 {
    if i.negative {
        -(i.value.u128() as i64)
    } else {
        i.value.u128() as i64
    }
}
