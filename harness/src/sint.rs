//! C19: evaluate the real `Integer` type on an operand grid (including the 128-bit boundary) and
//! write the observed results as a table; TLC judges the table against big-natural arithmetic.
use cosmwasm_std::Uint128;
use margined_common::integer::Integer;
use serde_json::{json, Value};
use std::io::Write;
use std::panic::{catch_unwind, AssertUnwindSafe};
use std::str::FromStr;

fn limbs(mut v: u128) -> Vec<u64> {
    let mut out = vec![];
    if v == 0 {
        return vec![0];
    }
    while v > 0 {
        out.push((v % 10000) as u64);
        v /= 10000;
    }
    out
}

fn limbs_of_digits(s: &str) -> Vec<u64> {
    match s.parse::<u128>() {
        Ok(v) => limbs(v),
        Err(_) => vec![9999, 9999, 9999, 9999, 9999, 9999, 9999, 9999, 9999, 9999, 9999],
    }
}

fn enc(i: &Integer) -> Value {
    json!({"neg": i.negative, "l": limbs(i.value.u128())})
}

/// everything observable about a value, through the type's own API
fn observe(i: Integer) -> Value {
    let zero = Integer::zero();
    let disp = i.to_string();
    let dneg = disp.starts_with('-');
    let digits = if dneg { &disp[1..] } else { &disp[..] };
    let back = Integer::from_str(&disp);
    let ser = serde_json::to_string(&i).unwrap_or_default();
    let de: Result<Integer, _> = serde_json::from_str(&ser);
    json!({
        "st": "ok", "neg": i.negative, "l": limbs(i.value.u128()),
        "eq0": i == zero, "lt0": i < zero, "gt0": i > zero, "le0": i <= zero, "ge0": i >= zero,
        "cmp0": match i.cmp(&zero) { std::cmp::Ordering::Less => -1, std::cmp::Ordering::Equal => 0, _ => 1 },
        "isneg": i.is_negative(), "ispos": i.is_positive(), "iszero": i.is_zero(),
        "dneg": dneg, "dl": limbs_of_digits(digits),
        "rt": match back { Ok(b) => b == i, Err(_) => false },
        "rtl": match back { Ok(b) => json!(limbs(b.value.u128())), Err(_) => json!([9999]) },
        "rtneg": match back { Ok(b) => b.negative, Err(_) => false },
        "serde_rt": match de { Ok(b) => b == i, Err(_) => false },
    })
}

fn failed(st: &str) -> Value {
    json!({"st": st, "neg": false, "l": [0], "eq0": false, "lt0": false, "gt0": false, "le0": false, "ge0": false,
        "cmp0": 0, "isneg": false, "ispos": false, "iszero": false, "dneg": false, "dl": [0], "rt": false,
        "rtl": [0], "rtneg": false, "serde_rt": false})
}

fn na() -> Value {
    failed("na")
}

/// `From` conversions of the operand where the source type can hold it (else "na")
fn conversions(a: &Integer) -> Value {
    let m = a.value.u128();
    let neg = a.negative && m != 0;
    let signed = |lim: u128| -> Option<i128> {
        if neg {
            if m <= lim + 1 { Some((-((m - 1) as i128)) - 1) } else { None }
        } else if m <= lim {
            Some(m as i128)
        } else {
            None
        }
    };
    let s = a.to_string();
    json!({
        "i128": match signed(i128::MAX as u128) { Some(v) => guarded(|| Integer::from(v)), None => na() },
        "i64": match signed(i64::MAX as u128) { Some(v) => guarded(|| Integer::from(v as i64)), None => na() },
        "i32": match signed(i32::MAX as u128) { Some(v) => guarded(|| Integer::from(v as i32)), None => na() },
        "i16": match signed(i16::MAX as u128) { Some(v) => guarded(|| Integer::from(v as i16)), None => na() },
        "i8": match signed(i8::MAX as u128) { Some(v) => guarded(|| Integer::from(v as i8)), None => na() },
        "u128": if !neg { guarded(|| Integer::from(m)) } else { na() },
        "uint128": if !neg { guarded(|| Integer::from(Uint128::from(m))) } else { na() },
        "u64": if !neg && m <= u64::MAX as u128 { guarded(|| Integer::from(m as u64)) } else { na() },
        "u32": if !neg && m <= u32::MAX as u128 { guarded(|| Integer::from(m as u32)) } else { na() },
        "u16": if !neg && m <= u16::MAX as u128 { guarded(|| Integer::from(m as u16)) } else { na() },
        "u8": if !neg && m <= u8::MAX as u128 { guarded(|| Integer::from(m as u8)) } else { na() },
        "str": guarded(|| Integer::from(s.as_str())),
        "string": guarded(|| Integer::from(s.clone())),
        "default": observe(Integer::default()),
    })
}

fn guarded<F: FnOnce() -> Integer>(f: F) -> Value {
    match catch_unwind(AssertUnwindSafe(|| observe(f()))) {
        Ok(v) => v,
        Err(_) => failed("panic"),
    }
}

fn gb<F: FnOnce() -> bool>(panics: &mut Vec<String>, name: &str, f: F) -> bool {
    match catch_unwind(AssertUnwindSafe(f)) {
        Ok(b) => b,
        Err(_) => { panics.push(name.to_string()); false }
    }
}

fn gi<F: FnOnce() -> i64>(panics: &mut Vec<String>, name: &str, f: F) -> i64 {
    match catch_unwind(AssertUnwindSafe(f)) {
        Ok(b) => b,
        Err(_) => { panics.push(name.to_string()); 99 }
    }
}

fn checked<E, F: FnOnce() -> Result<Integer, E>>(f: F) -> Value {
    match catch_unwind(AssertUnwindSafe(|| f().map(observe))) {
        Ok(Ok(v)) => v,
        Ok(Err(_)) => failed("err"),
        Err(_) => failed("panic"),
    }
}

pub fn table<W: Write>(out: &mut W) {
    let max = u128::MAX;
    let mags: Vec<u128> = vec![
        0, 1, 2, 3, 5, 7, 10, 127, 128, 129, 9999, 10000, 32767, 32768, (1u128 << 31) - 1, 1u128 << 31, (1u128 << 63) - 1,
        1u128 << 63, (1u128 << 64) - 1, 1u128 << 64, (1u128 << 64) + 1,
        10u128.pow(19), (1u128 << 127) - 1, 1u128 << 127, (1u128 << 127) + 1, max / 2, max / 3, 10u128.pow(38),
        max - 2, max - 1, max,
    ];
    let mut ops: Vec<Integer> = vec![];
    for m in mags.iter() {
        ops.push(Integer { value: Uint128::from(*m), negative: false });
        ops.push(Integer { value: Uint128::from(*m), negative: true });
    }
    let mut n = 0;
    for a in ops.iter() {
        for b in ops.iter() {
            let (a, b) = (*a, *b);
            let mut panics: Vec<String> = vec![];
            let rec = json!({
                "kind": "sint", "a": enc(&a), "b": enc(&b),
                "add": guarded(|| a + b), "sub": guarded(|| a - b), "mul": guarded(|| a * b), "div": guarded(|| a / b),
                "cadd": checked(|| a.checked_add(b)), "csub": checked(|| a.checked_sub(b)),
                "cmul": checked(|| a.checked_mul(b)), "cdiv": checked(|| a.checked_div(b)),
                "adda": guarded(|| { let mut x = a; x += b; x }), "suba": guarded(|| { let mut x = a; x -= b; x }),
                "mula": guarded(|| { let mut x = a; x *= b; x }), "diva": guarded(|| { let mut x = a; x /= b; x }),
                "conv": conversions(&a),
                "nega": guarded(|| a.invert_sign()), "absa": guarded(|| a.abs()), "ida": guarded(|| a),
                "lt": gb(&mut panics, "lt", || a < b), "le": gb(&mut panics, "le", || a <= b),
                "gt": gb(&mut panics, "gt", || a > b), "ge": gb(&mut panics, "ge", || a >= b),
                "eq": gb(&mut panics, "eq", || a == b), "ne": gb(&mut panics, "ne", || a != b),
                "cmp": gi(&mut panics, "cmp", || match a.cmp(&b) { std::cmp::Ordering::Less => -1, std::cmp::Ordering::Equal => 0, _ => 1 }),
                "pcmp": gi(&mut panics, "pcmp", || match a.partial_cmp(&b) { Some(std::cmp::Ordering::Less) => -1, Some(std::cmp::Ordering::Equal) => 0, Some(_) => 1, None => 2 }),
            });
            // a comparison that panics is an observation like any other (reported by the specification)
            let mut rec = rec;
            rec["panics"] = json!(panics);
            writeln!(out, "{}", rec).unwrap();
            n += 1;
        }
    }
    println!("{{\"pairs\": {}}}", n);
}
