//! Random, state-aware drivers. They only choose inputs; they judge nothing.
use crate::world::{num, TRADERS};
use crate::Runner;
use serde_json::{json, Value};
use std::io::Write;

pub struct Rng(pub u64);
impl Rng {
    pub fn next(&mut self) -> u64 {
        self.0 = self.0.wrapping_add(0x9E3779B97F4A7C15);
        let mut z = self.0;
        z = (z ^ (z >> 30)).wrapping_mul(0xBF58476D1CE4E5B9);
        z = (z ^ (z >> 27)).wrapping_mul(0x94D049BB133111EB);
        z ^ (z >> 31)
    }
    pub fn below(&mut self, n: u64) -> u64 {
        if n == 0 {
            0
        } else {
            self.next() % n
        }
    }
    pub fn range(&mut self, lo: i64, hi: i64) -> i64 {
        lo + self.below((hi - lo + 1) as u64) as i64
    }
    pub fn pick<'a, T>(&mut self, xs: &'a [T]) -> &'a T {
        &xs[self.below(xs.len() as u64) as usize]
    }
    pub fn chance(&mut self, pct: u64) -> bool {
        self.below(100) < pct
    }
}

fn pos<'a>(post: &'a Value, v: &str, t: &str) -> &'a Value {
    &post["eng"]["pos"][v][t]
}

pub fn run_random<W: Write, W2: Write>(
    driver: &str,
    seed: u64,
    count: u64,
    maxops: u64,
    out: &mut W,
    mut scn_out: Option<W2>,
) {
    let mut total_ev = 0usize;
    for k in 0..count {
        let mut rng = Rng(seed.wrapping_mul(1_000_003).wrapping_add(k));
        let id = format!("{}-{}-{}", driver, seed, k);
        if driver == "exactfund" {
            let (mut a, mut b) = if k % 4 == 3 { drive_exactprepaid(&id, &mut rng) } else { drive_exactfund(&id, &mut rng) };
            total_ev += a.out.len() + b.out.len();
            if let Some(so) = scn_out.as_mut() {
                writeln!(so, "{}", a.scenario_json()).unwrap();
                writeln!(so, "{}", b.scenario_json()).unwrap();
            }
            a.flush(out);
            b.flush(out);
            continue;
        }
        if driver == "liqwin" {
            let mut a = drive_liqwin(&id, &mut rng);
            total_ev += a.out.len();
            if let Some(so) = scn_out.as_mut() {
                writeln!(so, "{}", a.scenario_json()).unwrap();
            }
            a.flush(out);
            continue;
        }
        let mut r = match driver {
            "vamm" => drive_vamm(&id, &mut rng, maxops),
            "feed" => drive_feed(&id, &mut rng, maxops),
            _ => drive_engine(&id, driver, &mut rng, maxops),
        };
        total_ev += r.out.len();
        if let Some(so) = scn_out.as_mut() {
            writeln!(so, "{}", r.scenario_json()).unwrap();
        }
        r.flush(out);
    }
    println!("{{\"scenarios\": {}, \"events\": {}}}", count, total_ev);
}

/// Direct vAMM driver: the account "drv" is configured as the vAMM's margin engine.
fn drive_vamm(id: &str, rng: &mut Rng, maxops: u64) -> Runner {
    let d = 100i64;
    // reserves: at least one whole unit each, x*y*1 kept below 2^31 / 2 for TLC
    let (x, y) = loop {
        let x = *rng.pick(&[1i64, 2, 5, 10, 37, 100, 250, 1000, 1000, 1000, 2500]) * d
            + if rng.chance(30) { rng.range(0, 99) } else { 0 };
        let y = *rng.pick(&[1i64, 2, 3, 10, 33, 100, 100, 100, 400]) * d
            + if rng.chance(30) { rng.range(0, 99) } else { 0 };
        if x * y <= 1_200_000_000 {
            break (x, y);
        }
    };
    let fluct = *rng.pick(&[0i64, 0, 0, 1, 5, 10]);
    let dep = json!({
        "collateral": "cw20", "dec": 2, "direct": true,
        "vamms": [{"x": x, "y": y, "fluct": fluct, "period": 3600}]
    });
    let mut r = Runner::new(id, &dep);
    let n = rng.range(4, maxops as i64);
    for _ in 0..n {
        let st = r.out.last().map(|e| e["post"]["vamm"]["vamm1"]["st"].clone()).unwrap_or(json!({}));
        let (cx, cy) = (num(&st["x"]), num(&st["y"]));
        let roll = rng.below(100);
        if roll < 14 {
            let dt = *rng.pick(&[1i64, 15, 15, 60, 899, 900, 901, 3600]);
            let dns = *rng.pick(&[0u64, 0, 250_000_000, 500_000_000, 999_000_000]);
            r.op(&json!({"k": "block", "dh": 1, "dt": dt, "dns": dns}));
            if rng.chance(60) {
                let iv = *rng.pick(&[1i64, 15, 60, 900, 3600, 100000]);
                r.op(&json!({"k": "query", "c": "vamm1", "q": "twap_price", "a": {"interval": iv}}));
                r.op(&json!({"k": "query", "c": "vamm1", "q": "spot_price", "a": {}}));
            }
            continue;
        }
        if roll < 18 {
            let iv = *rng.pick(&[1i64, 15, 60, 900, 3600]);
            r.op(&json!({"k": "query", "c": "vamm1", "q": "twap_price", "a": {"interval": iv}}));
            continue;
        }
        if roll < 22 {
            // the market is paused and resumed (owner), sometimes with time passing in between, sometimes a no-op request
            let open_now = st["open"].as_bool().unwrap_or(true);
            let want = if rng.chance(80) { !open_now } else { open_now };
            r.op(&json!({"k": "tx", "c": "vamm1", "m": "set_open", "s": *rng.pick(&["owner", "owner", "owner", "stranger"]), "a": {"open": want}}));
            if rng.chance(50) {
                r.op(&json!({"k": "block", "dh": 1, "dt": *rng.pick(&[15i64, 300, 901]), "dns": 0}));
            }
            if !want && rng.chance(70) {
                r.op(&json!({"k": "tx", "c": "vamm1", "m": "set_open", "s": "owner", "a": {"open": true}}));
                r.op(&json!({"k": "query", "c": "vamm1", "q": "twap_price", "a": {"interval": *rng.pick(&[1i64, 60, 900, 100000])}}));
            }
            continue;
        }
        let input = rng.chance(50);
        let dir = if rng.chance(50) { "add" } else { "rem" };
        // amount: up to ~40% of the relevant reserve, with a bias to small / dust amounts
        let reserve = if input { cx } else { cy };
        let amt = match rng.below(14) {
            0 => rng.range(0, 3),
            1 | 2 => rng.range(1, 50),
            // the whole reserve, to the unit (and one unit either side): draining swaps
            10 => reserve,
            11 => (reserve - 1).max(1),
            12 => reserve + 1,
            _ => rng.range(1, (reserve * 2 / 5).max(2)),
        };
        let qn = if input { "input_amount" } else { "output_amount" };
        let (qok, _) = r.op(&json!({"k": "query", "c": "vamm1", "q": qn, "a": {"dir": dir, "amount": amt}}));
        let quoted = if qok { num(&r.out.last().unwrap()["res"]["val"]) } else { 0 };
        let limit = match rng.below(6) {
            0 | 1 | 2 => 0,
            3 => quoted,
            4 => (quoted - 1).max(0),
            _ => quoted + 1,
        };
        if input {
            let over = rng.chance(30);
            r.op(&json!({"k": "tx", "c": "vamm1", "m": "swap_input", "s": "drv",
                "a": {"dir": dir, "amount": amt, "limit": limit, "over": over}}));
        } else {
            r.op(&json!({"k": "tx", "c": "vamm1", "m": "swap_output", "s": "drv",
                "a": {"dir": dir, "amount": amt, "limit": limit}}));
        }
    }
    r
}

/// Real price feed driven directly.
fn drive_feed(id: &str, rng: &mut Rng, maxops: u64) -> Runner {
    // two price keys served by the one feed, their submissions interleaved
    let dep = json!({"collateral": "cw20", "dec": 2, "feed": "real", "vamms": [{}, {}]});
    let mut r = Runner::new(id, &dep);
    let n = rng.range(3, maxops as i64);
    for _ in 0..n {
        let now = num(&r.out.last().unwrap()["post"]["blk"]["t"]);
        let roll = rng.below(100);
        let key = if rng.chance(60) { "ETH" } else { "BTC" };
        if roll < 35 {
            let dt = *rng.pick(&[1i64, 15, 60, 300, 900, 3600]);
            r.op(&json!({"k": "block", "dh": 1, "dt": dt}));
        } else if roll < 45 {
            // a batch of submissions (non-decreasing timestamps, not in the future)
            let last_t = r.out.last().unwrap()["post"]["feed"]["rounds"][key]
                .as_array().and_then(|a| a.last()).map(|x| num(&x["t"])).unwrap_or(0);
            let n = rng.range(1, 3);
            let mut ps = vec![];
            let mut ts = vec![];
            let mut t = last_t.max(now - 2000).min(now);
            for _ in 0..n {
                ps.push(*rng.pick(&[700i64, 900, 1000, 1100, 1300, 1800]));
                t = rng.range(t, now);
                ts.push(t);
            }
            r.op(&json!({"k": "tx", "c": "feed", "m": "append_multiple_price", "s": "owner",
                "a": {"key": key, "prices": ps, "ts": ts}}));
        } else if roll < 70 {
            let price = *rng.pick(&[800i64, 900, 1000, 1000, 1100, 1250, 2000, 1]);
            let last_t = r.out.last().unwrap()["post"]["feed"]["rounds"][key]
                .as_array()
                .and_then(|a| a.last())
                .map(|x| num(&x["t"]))
                .unwrap_or(0);
            // non-decreasing timestamps, not in the future
            let t = rng.range(last_t.max(now - 2000).min(now), now);
            r.op(&json!({"k": "tx", "c": "feed", "m": "append_price", "s": "owner",
                "a": {"key": key, "price": price, "t": t}}));
        } else {
            match rng.below(3) {
                0 => {
                    r.op(&json!({"k": "query", "c": "feed", "q": "get_price", "a": {"key": key}}));
                }
                1 => {
                    let nb = rng.range(0, 4);
                    r.op(&json!({"k": "query", "c": "feed", "q": "get_previous_price", "a": {"key": key, "n": nb}}));
                }
                _ => {
                    let iv = *rng.pick(&[1i64, 15, 60, 300, 900, 3600, 50000]);
                    r.op(&json!({"k": "query", "c": "feed", "q": "get_twap_price", "a": {"key": key, "interval": iv}}));
                }
            }
        }
    }
    r
}

/// Engine-level random histories. `flavour` biases the deployment and the operation mix.
fn drive_engine(id: &str, flavour: &str, rng: &mut Rng, maxops: u64) -> Runner {
    let d = 100i64;
    let native = match flavour {
        "engine-native" => true,
        "engine-cw20" => false,
        _ => rng.chance(35),
    };
    let real = flavour == "engine-realfeed" || (flavour == "engine" && rng.chance(10));
    let fees = rng.chance(45);
    let hifee = fees && rng.chance(12);
    let toll = if hifee { *rng.pick(&[60i64, 100, 50, 33]) } else if fees { *rng.pick(&[0i64, 1, 5, 10]) } else { 0 };
    let spread = if hifee { *rng.pick(&[70i64, 100, 67, 2]) } else if fees { *rng.pick(&[0i64, 1, 5, 10]) } else { 0 };
    let fluct = if flavour == "fluct" { *rng.pick(&[1i64, 2, 5]) } else { *rng.pick(&[0i64, 0, 0, 0, 5]) };
    let plr = match flavour {
        "liq" => *rng.pick(&[0i64, 0, 25, 25, 50, 100]),
        "fluct" => *rng.pick(&[25i64, 25, 50, 100, 0]),
        _ => *rng.pick(&[0i64, 0, 0, 25, 100]),
    };
    let (imr, mmr) = *rng.pick(&[(5i64, 5i64), (5, 5), (10, 5), (10, 10), (20, 3)]);
    let liqfee = *rng.pick(&[5i64, 5, 5, 1, 10, 0]);
    let caps = flavour == "caps" || rng.chance(8);
    let hcap = if caps { *rng.pick(&[0i64, 1000, 2500, 5000]) } else { 0 };
    let oicap = if caps { *rng.pick(&[0i64, 30000, 60000, 100000]) } else { 0 };
    let nv = if flavour == "multi" || flavour == "gates" { 2 } else { 1 };
    // pool variants: the standard price-10 pool, and pools at / below price 1 (x*y kept <= 1.2e9 for TLC)
    let (px, py) = *rng.pick(&[(100000i64, 10000i64), (100000, 10000), (100000, 10000), (100000, 10000),
                               (30000, 30000), (20000, 50000), (12000, 90000), (250000, 4000),
                               (1000, 162), (2500, 700), (700, 2500)]);
    let mut vs = vec![];
    for _ in 0..nv {
        // the (funding) TWAP interval is configurable from one minute to one week
        let twapint = *rng.pick(&[3600i64, 3600, 3600, 3600, 300, 60, 900, 7200]);
        vs.push(json!({"x": px, "y": py, "toll": toll, "spread": spread, "fluct": fluct, "period": 3600, "hcap": hcap, "oicap": oicap, "twapint": twapint}));
    }
    let dep = json!({
        "collateral": if native {"native"} else {"cw20"}, "dec": 2,
        "feed": if real {"real"} else {"mock"},
        "engine": {"imr": imr, "mmr": mmr, "liqfee": liqfee, "plr": plr},
        "vamms": vs,
        "ifund_bal": *rng.pick(&[5000 * d, 5000 * d, 5000 * d, 50 * d, 0]),
        "oracle": px * d / py,
    });
    let mut r = Runner::new(id, &dep);
    let vnames: Vec<String> = r.w.vamms.clone();
    let n = rng.range(5, maxops as i64);
    let big = flavour == "liq" || rng.chance(40);
    if flavour == "fluct" || rng.chance(50) {
        // leave the deployment block so that a previous-block snapshot exists
        r.op(&json!({"k": "block", "dh": 1, "dt": 15}));
    }
    for _ in 0..n {
        let post = r.out.last().unwrap()["post"].clone();
        let v = rng.pick(&vnames).clone();
        let t = *rng.pick(&TRADERS[..3]);
        let p = pos(&post, &v, t).clone();
        let has = p["exists"].as_bool().unwrap_or(false) && num(&p["size"]) != 0;
        let roll = rng.below(100);
        let x = num(&post["vamm"][&v]["st"]["x"]);
        if has && rng.chance(6) {
            // flatten through the reversal path: an opposite order of exactly the position's value
            // (the engine keeps a zero-size record); sometimes one unit either side
            let delta = *rng.pick(&[0i64, 0, 0, 1, -1]);
            let nn = num(&p["notional"]);
            let fee = nn * toll / d + nn * spread / d;
            r.op(&json!({"k": "flatten", "s": t, "v": v, "delta": delta, "funds": if native { fee + rng.range(0, 2) * 0 } else { 0 }}));
        } else if flavour == "gates" && rng.chance(14) {
            // administrative switches in the middle of a history
            match rng.below(9) {
                0 => r.op(&json!({"k": "tx", "c": "engine", "m": "set_pause", "s": "owner", "a": {"pause": rng.chance(60)}})),
                1 | 2 => r.op(&json!({"k": "tx", "c": &v, "m": "set_open", "s": "owner", "a": {"open": rng.chance(40)}})),
                3 => r.op(&json!({"k": "tx", "c": "ifund", "m": "remove_vamm", "s": "owner", "a": {"vamm": v}})),
                4 => r.op(&json!({"k": "tx", "c": "ifund", "m": "add_vamm", "s": "owner", "a": {"vamm": v}})),
                5 => r.op(&json!({"k": "tx", "c": "ifund", "m": "shutdown_vamms", "s": "owner", "a": {}})),
                6 => r.op(&json!({"k": "tx", "c": "engine", "m": *rng.pick(&["add_whitelist", "remove_whitelist"]), "s": "owner", "a": {"address": t}})),
                7 => r.op(&json!({"k": "tx", "c": &v, "m": "update_config", "s": "owner", "a": {"oicap": *rng.pick(&[0i64, 20000, 60000]), "hcap": *rng.pick(&[0i64, 1000, 4000])}})),
                _ => r.op(&json!({"k": "query", "c": "ifund", "q": "is_vamm", "a": {"vamm": v}})),
            };
        } else if roll < 38 || (!has && roll < 55) {
            // open / increase / reduce / reverse
            let lev = match rng.below(12) {
                0 => 100,
                1 | 2 => 200,
                3 | 4 => 500,
                5 | 6 | 7 => 1000,
                8 => 2000,
                9 => 150,
                10 => *rng.pick(&[99i64, 101, 1999, 2001, 1000 * 100 / imr.max(1), 1000 * 100 / imr.max(1) + 1, 333]),
                _ => 1000,
            };
            let max_notional = (if big { 60000 } else { 20000 }) * px / 100000;
            let max_notional = max_notional.max(600);
            let notional = if flavour == "fluct" {
                // sizes on either side of the per-block band edge (price moves ~ 2*q/x)
                let edge = x * fluct / 200;
                rng.range((edge / 5).max(1), edge * 5 / 2 + 2)
            } else {
                match rng.below(8) {
                    0 => rng.range(1, 200),
                    _ => rng.range(500, max_notional),
                }
            };
            let mut margin = (notional * d / lev).max(1);
            if rng.chance(15) {
                margin += rng.range(0, 3);
            }
            // keep the pool inside a range TLC can multiply
            let side = if x > px * 22 / 10 { "sell" } else if x < px * 45 / 100 { "buy" } else if rng.chance(50) { "buy" } else { "sell" };
            let side = if has && rng.chance(if flavour == "funding" { 60 } else { 35 }) {
                // bias: trade against the current position (reduce / reverse)
                if num(&p["size"]) > 0 { "sell" } else { "buy" }
            } else {
                side
            };
            let nn = margin * lev / d;
            let fee = nn * toll / d + nn * spread / d;
            let funds = if native {
                let same = !has || (num(&p["size"]) > 0) == (side == "buy");
                if same || rng.chance(20) { margin + fee } else { fee }
            } else {
                0
            };
            let limit = if rng.chance(8) { rng.range(1, 5000) } else { 0 };
            if rng.chance(7) {
                // slippage limit right at the vAMM's own quote for the trade (one unit either side of it)
                r.op(&json!({"k": "open_lim", "s": t, "v": v, "side": side, "margin": margin, "leverage": lev,
                    "off": *rng.pick(&[-1i64, 0, 1]), "funds": funds}));
            } else {
                r.op(&json!({"k": "tx", "c": "engine", "m": "open_position", "s": t,
                    "a": {"vamm": v, "side": side, "margin": margin, "leverage": lev, "limit": limit}, "funds": funds}));
            }
        } else if roll < 50 && has && rng.chance(30) {
            // top the margin up so that the position is worth exactly zero (margin + pnl - funding = 0),
            // then close it: a close that pays nothing
            r.op(&json!({"k": "query", "c": "engine", "q": "unrealized_pnl", "a": {"vamm": v, "trader": t, "opt": "spot_price"}}));
            let pnl = num(&r.out.last().unwrap()["res"]["val"]["unrealized_pnl"]);
            r.op(&json!({"k": "query", "c": "engine", "q": "position_with_funding_payment", "a": {"vamm": v, "trader": t}}));
            let pw = r.out.last().unwrap()["res"]["val"].clone();
            let mut eq = num(&pw["margin"]) + pnl;
            // the margin reported with funding is clamped at zero: recover the signed value
            let owed = (num(&post["eng"]["vmap"][&v]["cpf"].as_array().and_then(|a| a.last()).cloned().unwrap_or(json!(0))) - num(&p["lupf"])) * num(&p["size"]);
            let owed = if owed < 0 { -((-owed) / d) } else { owed / d };
            if num(&pw["margin"]) == 0 {
                eq = num(&p["margin"]) - owed + pnl;
            }
            if eq < 0 {
                let amt = -eq;
                r.op(&json!({"k": "tx", "c": "engine", "m": "deposit_margin", "s": t, "a": {"vamm": v, "amount": amt}, "funds": if native { amt } else { 0 }}));
            }
            r.op(&json!({"k": "tx", "c": "engine", "m": "close_position", "s": t, "a": {"vamm": v, "limit": 0}}));
        } else if roll < 50 || (flavour == "fluct" && has && roll < 68) {
            let who = if has { t } else { *rng.pick(&TRADERS[..3]) };
            // slippage limit of the close: none, arbitrary, or one the trade certainly satisfies
            // (a long receives at least 1; a short pays at most a huge amount)
            let long = num(&pos(&post, &v, who)["size"]) > 0;
            let limit = match rng.below(100) {
                0..=7 => rng.range(1, 50000),
                8..=17 => if long { 1 } else { 10_000_000 },
                _ => 0,
            };
            let extra = if native && rng.chance(6) { rng.range(1, 200) } else { 0 };
            r.op(&json!({"k": "tx", "c": "engine", "m": "close_position", "s": who, "a": {"vamm": v, "limit": limit}, "funds": extra}));
        } else if roll < 55 {
            let amt = match rng.below(4) { 0 => rng.range(0, 3), _ => rng.range(1, 3000) };
            r.op(&json!({"k": "tx", "c": "engine", "m": "deposit_margin", "s": t, "a": {"vamm": v, "amount": amt},
                "funds": if native { amt } else { 0 }}));
        } else if roll < 62 {
            let m = num(&p["margin"]);
            let amt = match rng.below(4) { 0 => rng.range(0, 3), 1 => m, _ => rng.range(1, m.max(2)) };
            let extra = if native && rng.chance(6) { rng.range(1, 200) } else { 0 };
            r.op(&json!({"k": "tx", "c": "engine", "m": "withdraw_margin", "s": t, "a": {"vamm": v, "amount": amt}, "funds": extra}));
        } else if roll < 76 {
            // liquidation attempt on any trader holding a position (prefer one that exists)
            let mut cands: Vec<&str> = vec![];
            for tt in TRADERS.iter() {
                if num(&pos(&post, &v, tt)["size"]) != 0 {
                    cands.push(tt);
                }
            }
            let target = if cands.is_empty() || rng.chance(5) { t } else { *rng.pick(&cands) };
            let by = if rng.chance(65) { "liq" } else if rng.chance(30) { target } else { *rng.pick(&TRADERS[..3]) };
            if rng.chance(50) {
                r.op(&json!({"k": "query", "c": "engine", "q": "margin_ratio", "a": {"vamm": v, "trader": target}}));
            }
            let limit = if rng.chance(6) { rng.range(1, 50000) } else { 0 };
            let extra = if native && rng.chance(8) { rng.range(1, 200) } else { 0 };
            r.op(&json!({"k": "tx", "c": "engine", "m": "liquidate", "s": by, "a": {"vamm": v, "trader": target, "limit": limit}, "funds": extra}));
        } else if roll < 82 || (flavour == "funding" && roll < 90) {
            r.op(&json!({"k": "tx", "c": "engine", "m": "pay_funding", "s": *rng.pick(&["liq", "tr1", "stranger"]), "a": {"vamm": v}}));
        } else if roll < 93 {
            let dt = if flavour == "funding" {
                *rng.pick(&[15i64, 900, 1799, 1800, 1801, 3599, 3600, 3601, 3600])
            } else {
                *rng.pick(&[1i64, 15, 15, 15, 60, 900, 901, 1800, 3600, 3601])
            };
            if rng.chance(7) {
                r.op(&json!({"k": "block", "dh": 1, "dt": 0, "dns": *rng.pick(&[400_000_000u64, 999_999_999, 1])}));
            } else {
                r.op(&json!({"k": "block", "dh": 1, "dt": dt}));
            }
        } else if roll < 97 {
            let base_price = px * d / py;
            let price = (base_price * *rng.pick(&[60i64, 80, 90, 100, 100, 110, 125, 150]) / 100).max(1);
            let now = num(&post["blk"]["t"]);
            let key = r.w.base_asset(&v);
            r.op(&json!({"k": "tx", "c": "feed", "m": "append_price", "s": "owner", "a": {"key": key, "price": price, "t": now}}));
        } else {
            let dirq = if rng.chance(50) { "add" } else { "rem" };
            match rng.below(30) {
                14 => r.op(&json!({"k": "query", "c": "engine", "q": "state", "a": {}})),
                15 => r.op(&json!({"k": "query", "c": "engine", "q": "config", "a": {}})),
                16 => r.op(&json!({"k": "query", "c": "engine", "q": "pauser", "a": {}})),
                17 => r.op(&json!({"k": "query", "c": "engine", "q": "whitelist", "a": {}})),
                18 => r.op(&json!({"k": "query", "c": "engine", "q": "is_whitelisted", "a": {"address": t}})),
                19 => r.op(&json!({"k": "query", "c": "engine", "q": "all_positions", "a": {"trader": t}})),
                20 => r.op(&json!({"k": "query", "c": "engine", "q": "balance_with_funding_payment", "a": {"trader": t}})),
                21 => r.op(&json!({"k": "query", "c": &v, "q": "state", "a": {}})),
                22 => r.op(&json!({"k": "query", "c": &v, "q": "config", "a": {}})),
                23 => r.op(&json!({"k": "query", "c": &v, "q": "owner", "a": {}})),
                24 => r.op(&json!({"k": "query", "c": &v, "q": "output_price", "a": {"dir": dirq, "amount": rng.range(0, 3000)}})),
                25 => r.op(&json!({"k": "query", "c": "ifund", "q": *rng.pick(&["config", "owner", "get_all_vamm", "get_all_vamm_status"]), "a": {}})),
                26 => r.op(&json!({"k": "query", "c": "fpool", "q": *rng.pick(&["config", "owner", "get_token_list", "get_token_length", "is_token"]), "a": {}})),
                27 => r.op(&json!({"k": "query", "c": &v, "q": *rng.pick(&["input_twap", "output_twap", "input_price", "input_amount", "output_amount"]), "a": {"dir": dirq, "amount": 0}})),
                28 => r.op(&json!({"k": "query", "c": &v, "q": "twap_price", "a": {"interval": 0}})),
                29 => r.op(&json!({"k": "query", "c": "ifund", "q": "get_vamm_status", "a": {"vamm": v}})),
                0 => r.op(&json!({"k": "query", "c": "engine", "q": "margin_ratio", "a": {"vamm": v, "trader": t}})),
                1 => r.op(&json!({"k": "query", "c": "engine", "q": "free_collateral", "a": {"vamm": v, "trader": t}})),
                2 => r.op(&json!({"k": "query", "c": &v, "q": "output_twap", "a": {"dir": dirq, "amount": rng.range(1, 3000)}})),
                3 => r.op(&json!({"k": "query", "c": &v, "q": "twap_price", "a": {"interval": *rng.pick(&[60i64, 900, 3600])}})),
                4 => r.op(&json!({"k": "query", "c": &v, "q": "input_twap", "a": {"dir": dirq, "amount": rng.range(1, 20000)}})),
                5 => r.op(&json!({"k": "query", "c": "engine", "q": "unrealized_pnl", "a": {"vamm": v, "trader": t, "opt": *rng.pick(&["spot_price", "twap", "oracle"])}})),
                6 => r.op(&json!({"k": "query", "c": "engine", "q": "position", "a": {"vamm": v, "trader": t}})),
                7 => r.op(&json!({"k": "query", "c": "engine", "q": "position_with_funding_payment", "a": {"vamm": v, "trader": t}})),
                8 => r.op(&json!({"k": "query", "c": "engine", "q": "cumulative_premium_fraction", "a": {"vamm": v}})),
                9 => r.op(&json!({"k": "query", "c": &v, "q": "is_over_spread_limit", "a": {}})),
                10 => r.op(&json!({"k": "query", "c": &v, "q": "is_over_fluctuation_limit", "a": {"dir": dirq, "amount": rng.range(1, 3000)}})),
                11 => r.op(&json!({"k": "query", "c": &v, "q": "calc_fee", "a": {"amount": rng.range(0, 50000)}})),
                12 => r.op(&json!({"k": "query", "c": &v, "q": "underlying_twap_price", "a": {"interval": *rng.pick(&[60i64, 900, 3600])}})),
                _ => r.op(&json!({"k": "query", "c": &v, "q": "input_price", "a": {"dir": dirq, "amount": rng.range(1, 20000)}})),
            };
        }
    }
    r
}

/// Steers a victim's margin ratio into a chosen spot of the window (liquidation fee, maintenance)
/// -- the region in which `Liquidate` takes the partial path legitimately -- by bisection over one
/// scenario parameter (the size of the trade pushing the price, or the oracle price that sets the
/// funding charged on a position in profit); each probe is a fresh run of the real contracts.
/// The final run is the recorded one: liquidation, then a second liquidation and a close.
fn drive_liqwin(id: &str, rng: &mut Rng) -> Runner {
    let native = rng.chance(25);
    let side = if rng.chance(50) { "sell" } else { "buy" };
    let other = if side == "sell" { "buy" } else { "sell" };
    let plr = *rng.pick(&[25i64, 50, 75, 100, 100]);
    let liqfee = *rng.pick(&[1i64, 2, 3]);
    let mmr = *rng.pick(&[6i64, 8, 10]);
    let lev = *rng.pick(&[200i64, 500, 1000]);
    let lowprice = rng.chance(25);
    let funding = rng.chance(35);
    let settle = if rng.chance(70) { 1000i64 } else { *rng.pick(&[15i64, 120, 400]) };
    // where inside (fee, maintenance) the ratio should land: just above the fee, the middle, just below maintenance
    let target = match rng.below(4) {
        0 => liqfee + 1,
        1 => mmr - 1,
        2 => mmr,
        _ => (liqfee + mmr) / 2,
    };
    let m1 = if lowprice { 100i64 } else { 2000 };
    let f = |m: i64| if native { m } else { 0 };
    let pool = if lowprice { json!({"x": 10000, "y": 100000, "period": if funding {86400} else {3600}}) } else { json!({"period": if funding {86400} else {3600}}) };
    let dep = json!({"collateral": if native {"native"} else {"cw20"}, "dec": 2, "feed": "mock", "trader_bal": 5_000_000, "ifund_bal": 5_000_000,
                     "engine": {"plr": plr, "liqfee": liqfee, "mmr": mmr, "imr": mmr}, "vamms": [pool]});
    let build = |param: i64| -> Vec<Value> {
        let mut ops: Vec<Value> = vec![json!({"k": "block", "dh": 1, "dt": 901})];
        ops.push(json!({"k": "tx", "c": "engine", "m": "open_position", "s": "tr1", "a": {"vamm": "vamm1", "side": side, "margin": m1, "leverage": lev, "limit": 0}, "funds": f(m1)}));
        ops.push(json!({"k": "block", "dh": 1, "dt": 901}));
        if funding {
            // the price moves in the victim's favour, then a day of funding against it: param = oracle offset
            let fav = m1 * lev / 100 / 2;
            ops.push(json!({"k": "tx", "c": "engine", "m": "open_position", "s": "tr2", "a": {"vamm": "vamm1", "side": side, "margin": fav, "leverage": 100, "limit": 0}, "funds": f(fav)}));
            ops.push(json!({"k": "block", "dh": 1, "dt": 1000}));
            ops.push(json!({"k": "oracle_rel", "bp": if side == "buy" { -param } else { param }}));
            ops.push(json!({"k": "block", "dh": 1, "dt": 86400}));
            ops.push(json!({"k": "tx", "c": "engine", "m": "pay_funding", "s": "stranger", "a": {"vamm": "vamm1"}}));
            ops.push(json!({"k": "oracle_rel", "bp": 0}));
        } else {
            ops.push(json!({"k": "tx", "c": "engine", "m": "open_position", "s": "tr2", "a": {"vamm": "vamm1", "side": other, "margin": param, "leverage": 100, "limit": 0}, "funds": f(param)}));
            ops.push(json!({"k": "block", "dh": 1, "dt": settle}));
            ops.push(json!({"k": "oracle_rel", "bp": 0}));
        }
        ops
    };
    let run = |param: i64, name: &str| -> (Runner, Option<i64>) {
        let mut r = Runner::new(name, &dep);
        let mut all_ok = true;
        for o in build(param).iter() {
            if o["k"] == "oracle_rel" {
                // oracle := spot x (1 + bp / 10000)
                let post = r.out.last().unwrap()["post"].clone();
                let st = &post["vamm"]["vamm1"]["st"];
                let spot = num(&st["x"]) * 100 / num(&st["y"]).max(1);
                let price = (spot * (10000 + num(&o["bp"])) / 10000).max(1);
                let now = num(&post["blk"]["t"]);
                r.op(&json!({"k": "tx", "c": "feed", "m": "append_price", "s": "owner", "a": {"key": "ETH", "price": price, "t": now}}));
            } else {
                let (ok, _) = r.op(o);
                all_ok = all_ok && (ok || o["k"] != "tx");
            }
        }
        let (ok, _) = r.op(&json!({"k": "query", "c": "engine", "q": "margin_ratio", "a": {"vamm": "vamm1", "trader": "tr1"}}));
        let val = if ok && all_ok { Some(num(&r.out.last().unwrap()["res"]["val"])) } else { None };
        (r, val)
    };
    // the ratio falls as the parameter grows: bisection for the smallest parameter with ratio <= target
    let (mut lo, mut hi) = if funding { (0i64, 9000i64) } else { (1i64, if lowprice { 40000 } else { 400000 }) };
    for _ in 0..22 {
        if hi - lo <= 1 {
            break;
        }
        let mid = (lo + hi) / 2;
        let (_, v) = run(mid, "probe");
        match v {
            Some(x) if x > target => lo = mid,
            Some(_) => hi = mid,
            None => hi = mid,
        }
    }
    let (mut r, _) = run(hi, id);
    r.op(&json!({"k": "tx", "c": "engine", "m": "liquidate", "s": "liq", "a": {"vamm": "vamm1", "trader": "tr1", "limit": 0}}));
    r.op(&json!({"k": "block", "dh": 1, "dt": 15}));
    r.op(&json!({"k": "tx", "c": "engine", "m": "liquidate", "s": "tr3", "a": {"vamm": "vamm1", "trader": "tr1", "limit": 0}}));
    r.op(&json!({"k": "tx", "c": "engine", "m": "close_position", "s": "tr1", "a": {"vamm": "vamm1", "limit": 0}}));
    r
}

/// The engine's prepaid-bad-debt counter equals *exactly* the bad debt of the next liquidation:
/// three traders on one side, one deposits (which only raises the vault), the first closes in profit
/// against a short vault (the fund prepays the shortfall), the third is liquidated later.  The first
/// run measures the counter P and the liquidation's bad debt B; the deposit of the second run is
/// shifted by P - B (and by one unit either side of it).
fn drive_exactprepaid(id: &str, rng: &mut Rng) -> (Runner, Runner) {
    let native = rng.chance(30);
    let side = if rng.chance(50) { "sell" } else { "buy" };
    let m = *rng.pick(&[1500i64, 2000, 2500]);
    let f = |x: i64| if native { x } else { 0 };
    let dep = json!({"collateral": if native {"native"} else {"cw20"}, "dec": 2, "engine": {"plr": 0}, "ifund_bal": 500_000});
    let build = |d: i64| -> Vec<Value> {
        let mut ops: Vec<Value> = vec![json!({"k": "block", "dh": 1, "dt": 15})];
        for t in ["tr1", "tr2", "tr3"] {
            ops.push(json!({"k": "tx", "c": "engine", "m": "open_position", "s": t, "a": {"vamm": "vamm1", "side": side, "margin": m, "leverage": 1000, "limit": 0}, "funds": f(m)}));
        }
        ops.push(json!({"k": "tx", "c": "engine", "m": "deposit_margin", "s": "tr2", "a": {"vamm": "vamm1", "amount": d}, "funds": f(d)}));
        ops.push(json!({"k": "tx", "c": "engine", "m": "close_position", "s": "tr1", "a": {"vamm": "vamm1", "limit": 0}}));
        ops.push(json!({"k": "block", "dh": 1, "dt": 1000}));
        ops
    };
    let liq_op = json!({"k": "tx", "c": "engine", "m": "liquidate", "s": "liq", "a": {"vamm": "vamm1", "trader": "tr3", "limit": 0}});
    let d0 = m * 3;
    let mut a = Runner::new(&format!("{}-measure", id), &dep);
    for o in build(d0).iter() {
        a.op(o);
    }
    let p0 = num(&a.out.last().unwrap()["post"]["eng"]["st"]["bad_debt"]);
    a.op(&liq_op);
    let mut delta: i64 = 0;
    if let Some(xs) = a.out.last().unwrap()["xfers"].as_array() {
        for x in xs {
            if x["ok"].as_bool().unwrap_or(false) && x["from"].as_str() == Some("ifund") {
                delta += x["amt"].as_i64().unwrap_or(0);
            }
        }
    }
    // the first fund withdrawal of liquidate_reply is bad debt - prepaid; a later one covers the liquidator's fee
    let first = a.out.last().unwrap()["xfers"].as_array().and_then(|xs| xs.iter().find(|x| x["from"].as_str() == Some("ifund")).map(|x| x["amt"].as_i64().unwrap_or(0))).unwrap_or(delta);
    let bad = p0 + first;
    let shift = p0 - bad + rng.range(-1, 1);
    let d1 = (d0 + shift).max(1);
    let mut b = Runner::new(&format!("{}-equal", id), &dep);
    for o in build(d1).iter() {
        b.op(o);
    }
    b.op(&liq_op);
    (a, b)
}

/// The insurance fund holds *exactly* what the final liquidation needs: the scenario is run once
/// with an ample fund to learn how much the fund pays during the liquidation, then again with the
/// fund sized so that it holds precisely that amount (or one unit more) when the liquidation starts.
fn drive_exactfund(id: &str, rng: &mut Rng) -> (Runner, Runner) {
    let native = rng.chance(30);
    let side = if rng.chance(50) { "sell" } else { "buy" };
    let other = if side == "sell" { "buy" } else { "sell" };
    let plr = *rng.pick(&[0i64, 0, 25]);
    let m1 = *rng.pick(&[1500i64, 2000, 2500]);
    let variant = rng.below(3);
    let f = |m: i64| if native { m } else { 0 };
    let mut ops: Vec<Value> = vec![json!({"k": "block", "dh": 1, "dt": 15})];
    if variant == 0 {
        // two traders on one side, the first closes in profit (vault drained), the second is liquidated
        ops.push(json!({"k": "tx", "c": "engine", "m": "open_position", "s": "tr1", "a": {"vamm": "vamm1", "side": side, "margin": m1, "leverage": 1000, "limit": 0}, "funds": f(m1)}));
        ops.push(json!({"k": "tx", "c": "engine", "m": "open_position", "s": "tr2", "a": {"vamm": "vamm1", "side": side, "margin": m1, "leverage": 1000, "limit": 0}, "funds": f(m1)}));
        ops.push(json!({"k": "block", "dh": 1, "dt": 15}));
        ops.push(json!({"k": "tx", "c": "engine", "m": "close_position", "s": "tr1", "a": {"vamm": "vamm1", "limit": 0}}));
    } else {
        // a leveraged position pushed deep under water by a larger opposite trade
        let push = *rng.pick(&[2500i64, 3000, 4000]);
        ops.push(json!({"k": "tx", "c": "engine", "m": "open_position", "s": "tr2", "a": {"vamm": "vamm1", "side": side, "margin": m1, "leverage": 1000, "limit": 0}, "funds": f(m1)}));
        ops.push(json!({"k": "tx", "c": "engine", "m": "open_position", "s": "tr1", "a": {"vamm": "vamm1", "side": other, "margin": push, "leverage": 1000, "limit": 0}, "funds": f(push)}));
        if variant == 2 {
            ops.push(json!({"k": "block", "dh": 1, "dt": 15}));
            ops.push(json!({"k": "tx", "c": "engine", "m": "close_position", "s": "tr1", "a": {"vamm": "vamm1", "limit": 0}}));
        }
    }
    ops.push(json!({"k": "block", "dh": 1, "dt": 901}));
    let liq_op = json!({"k": "tx", "c": "engine", "m": "liquidate", "s": "liq", "a": {"vamm": "vamm1", "trader": "tr2", "limit": 0}});
    let big = 500_000i64;
    let dep_a = json!({"collateral": if native {"native"} else {"cw20"}, "dec": 2, "engine": {"plr": plr}, "ifund_bal": big});
    let mut a = Runner::new(&format!("{}-ample", id), &dep_a);
    for o in ops.iter() {
        a.op(o);
    }
    let before = num(&a.out.last().unwrap()["post"]["bal"]["ifund"]);
    a.op(&liq_op);
    let mut need: i64 = 0;
    if let Some(xs) = a.out.last().unwrap()["xfers"].as_array() {
        for x in xs {
            if x["ok"].as_bool().unwrap_or(false) && x["from"].as_str() == Some("ifund") {
                need += x["amt"].as_i64().unwrap_or(0);
            }
        }
    }
    let extra = if rng.chance(50) { 0 } else { 1 };
    let fund_b = (big - before + need + extra).max(0);
    let dep_b = json!({"collateral": if native {"native"} else {"cw20"}, "dec": 2, "engine": {"plr": plr}, "ifund_bal": fund_b});
    let mut b = Runner::new(&format!("{}-exact", id), &dep_b);
    for o in ops.iter() {
        b.op(o);
    }
    b.op(&liq_op);
    (a, b)
}
