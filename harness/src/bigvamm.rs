//! C01 / C17 at the repository's REAL scale: a vAMM with 6 / 9 / 18 decimals and reserves up to the
//! 128-bit range is driven directly (the driver account is its margin engine); every amount is written
//! as a little-endian list of base-10^4 limbs so that TLC (32-bit integers) can judge the recorded
//! reserves with the big-natural arithmetic of spec/BigNat.tla (spec/trace/TraceBig.tla).
//! Inputs and observations only: no expectation is computed here.
use crate::drivers::Rng;
use cosmwasm_std::{Addr, Uint128};
use cw_multi_test::{App, ContractWrapper, Executor};
use margined_perp::margined_vamm as vm;
use serde_json::{json, Value};
use std::io::Write;
use std::panic::{catch_unwind, AssertUnwindSafe};

fn limbs(mut v: u128) -> Vec<u64> {
    if v == 0 {
        return vec![0];
    }
    let mut out = vec![];
    while v > 0 {
        out.push((v % 10000) as u64);
        v /= 10000;
    }
    out
}

fn pow10(n: u32) -> u128 {
    10u128.pow(n)
}

struct Pool {
    dec: u32,
    x: u128,
    y: u128,
    name: &'static str,
}

fn pools() -> Vec<Pool> {
    vec![
        // the repository's standard fixture
        Pool { dec: 9, x: 1000 * pow10(9), y: 100 * pow10(9), name: "std9" },
        Pool { dec: 6, x: 1000 * pow10(6), y: 100 * pow10(6), name: "std6" },
        // deep pools: one reserve beyond 64 bits, the product still inside 128 bits
        Pool { dec: 9, x: 20_000_000_000 * pow10(9), y: 10_000_000 * pow10(9), name: "deep9" },
        Pool { dec: 9, x: 3_000_000 * pow10(9), y: 40_000_000_000 * pow10(9), name: "deepbase9" },
        // fine-grained pools
        Pool { dec: 18, x: 100 * pow10(18), y: 1 * pow10(18), name: "fine18" },
        Pool { dec: 18, x: 3 * pow10(18), y: 50 * pow10(18), name: "fine18low" },
        // both reserves just under 64 bits (product just under 128)
        Pool { dec: 6, x: 18_000_000_000_000 * pow10(6), y: 18_000_000_000_000 * pow10(6), name: "edge64" },
        Pool { dec: 12, x: 7_000_000 * pow10(12), y: 9_000 * pow10(12), name: "mid12" },
    ]
}

fn snapshot(app: &App, vamm: &Addr) -> (u128, u128, bool, u128) {
    let st: vm::StateResponse = app.wrap().query_wasm_smart(vamm, &vm::QueryMsg::State {}).unwrap();
    (
        st.quote_asset_reserve.u128(),
        st.base_asset_reserve.u128(),
        st.total_position_size.negative,
        st.total_position_size.value.u128(),
    )
}

fn state_json(s: (u128, u128, bool, u128)) -> Value {
    json!({"x": limbs(s.0), "y": limbs(s.1), "total": {"neg": s.2 && s.3 != 0, "l": limbs(s.3)}})
}

pub fn run<W: Write>(seed: u64, per_pool: u64, maxops: u64, out: &mut W) -> (u64, u64) {
    let mut nscn = 0u64;
    let mut nev = 0u64;
    for (pi, p) in pools().iter().enumerate() {
        for k in 0..per_pool {
            let mut rng = Rng(seed.wrapping_mul(7_000_003).wrapping_add(pi as u64 * 1000 + k));
            let owner = Addr::unchecked("owner");
            let drv = Addr::unchecked("drv");
            let mut app = App::default();
            let vamm_id = app.store_code(Box::new(ContractWrapper::new(
                margined_vamm::contract::execute,
                margined_vamm::contract::instantiate,
                margined_vamm::contract::query,
            )));
            let feed_id = app.store_code(Box::new(ContractWrapper::new(
                mock_pricefeed::contract::execute,
                mock_pricefeed::contract::instantiate,
                mock_pricefeed::contract::query,
            )));
            let feed = app
                .instantiate_contract(feed_id, owner.clone(),
                    &mock_pricefeed::contract::InstantiateMsg { oracle_hub_contract: "oracle_hub0000".to_string() },
                    &[], "pricefeed", None)
                .unwrap();
            let vamm = match app.instantiate_contract(
                vamm_id,
                owner.clone(),
                &vm::InstantiateMsg {
                    decimals: p.dec as u8,
                    quote_asset: "USD".to_string(),
                    base_asset: "ETH".to_string(),
                    quote_asset_reserve: Uint128::new(p.x),
                    base_asset_reserve: Uint128::new(p.y),
                    funding_period: 3600,
                    toll_ratio: Uint128::zero(),
                    spread_ratio: Uint128::zero(),
                    fluctuation_limit_ratio: Uint128::zero(),
                    pricefeed: feed.to_string(),
                    margin_engine: Some(drv.to_string()),
                    insurance_fund: None,
                },
                &[],
                "vamm",
                None,
            ) {
                Ok(a) => a,
                Err(_) => continue,
            };
            app.execute_contract(owner.clone(), vamm.clone(), &vm::ExecuteMsg::SetOpen { open: true }, &[]).unwrap();
            let scn = format!("big-{}-{}-{}", p.name, seed, k);
            let s0 = snapshot(&app, &vamm);
            let mut e0 = state_json(s0);
            e0["kind"] = json!("reset");
            e0["scn"] = json!(scn);
            e0["i"] = json!(0);
            e0["dec"] = json!(p.dec);
            writeln!(out, "{}", e0).unwrap();
            nscn += 1;
            nev += 1;
            let n = rng.range(6, maxops as i64) as u64;
            // amounts whose net effect may be undone exactly: remember what was exchanged
            let mut last: Option<(bool, bool, u128)> = None; // (was_input, dir_add, base moved)
            for i in 1..=n {
                let (x, y, _, _) = snapshot(&app, &vamm);
                let input = rng.chance(50);
                let mut add = rng.chance(50);
                let reserve = if input { x } else { y };
                // amount: a fraction of the reserve, a dust amount, a "round" amount, or the exact undo of the last swap
                let mut amount: u128 = match rng.below(10) {
                    0 => rng.range(1, 2000) as u128,
                    1 => pow10(p.dec) * rng.range(1, 50) as u128,
                    2 | 3 => reserve / (rng.range(3, 4000) as u128) + rng.range(0, 1000) as u128 + 1,
                    4 => reserve / (rng.range(2, 9) as u128),
                    6 => if rng.chance(40) { reserve } else if rng.chance(50) { reserve.saturating_sub(1).max(1) } else { reserve / 2 + 1 },
                    5 => reserve / 1_000_003 * (rng.range(1, 9) as u128) + 7,
                    _ => reserve / (rng.range(10, 900) as u128) * 3 / 7 + rng.range(0, 3) as u128,
                };
                let mut is_input = input;
                if let Some((_, ladd, lbase)) = last {
                    if rng.chance(35) && lbase > 0 {
                        // undo: give back / take back exactly the base of the previous swap
                        is_input = false;
                        add = ladd;
                        amount = lbase;
                    }
                }
                if amount == 0 {
                    amount = 1;
                }
                let dir = if add { vm::Direction::AddToAmm } else { vm::Direction::RemoveFromAmm };
                // quote first (C17), then execute in the same state
                let quoted: Option<u128> = if is_input {
                    catch_unwind(AssertUnwindSafe(|| {
                        app.wrap().query_wasm_smart::<Uint128>(&vamm, &vm::QueryMsg::InputAmount { direction: dir.clone(), amount: Uint128::new(amount) })
                    })).ok().and_then(|r| r.ok()).map(|u| u.u128())
                } else {
                    catch_unwind(AssertUnwindSafe(|| {
                        app.wrap().query_wasm_smart::<Uint128>(&vamm, &vm::QueryMsg::OutputAmount { direction: dir.clone(), amount: Uint128::new(amount) })
                    })).ok().and_then(|r| r.ok()).map(|u| u.u128())
                };
                let msg = if is_input {
                    vm::ExecuteMsg::SwapInput { direction: dir.clone(), quote_asset_amount: Uint128::new(amount), base_asset_limit: Uint128::zero(), can_go_over_fluctuation: false }
                } else {
                    vm::ExecuteMsg::SwapOutput { direction: dir.clone(), base_asset_amount: Uint128::new(amount), quote_asset_limit: Uint128::zero() }
                };
                let res = {
                    let a = &mut app;
                    catch_unwind(AssertUnwindSafe(|| a.execute_contract(drv.clone(), vamm.clone(), &msg, &[])))
                };
                let ok = matches!(res, Ok(Ok(_)));
                let s1 = snapshot(&app, &vamm);
                if ok {
                    let base_moved = if s1.1 > y { s1.1 - y } else { y - s1.1 };
                    // direction in which the BASE reserve moved: true = base left the pool
                    last = Some((is_input, s1.1 < y, base_moved));
                }
                let mut ev = state_json(s1);
                ev["kind"] = json!("swap");
                ev["scn"] = json!(scn);
                ev["i"] = json!(i);
                ev["op"] = json!(if is_input { "swap_input" } else { "swap_output" });
                ev["dir"] = json!(if add { "add" } else { "rem" });
                ev["amount"] = json!(limbs(amount));
                ev["ok"] = json!(ok);
                ev["quoted_ok"] = json!(quoted.is_some());
                ev["quoted"] = json!(limbs(quoted.unwrap_or(0)));
                writeln!(out, "{}", ev).unwrap();
                nev += 1;
                if rng.chance(30) {
                    app.update_block(|b| {
                        b.height += 1;
                        b.time = b.time.plus_seconds(15);
                    });
                }
            }
        }
    }
    (nscn, nev)
}

