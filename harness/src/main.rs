//! perpverif: drives the real contracts and writes NDJSON traces for TLC.
//!   perpverif run <scenarios.ndjson> <trace.ndjson>
//!   perpverif random <driver> <seed> <count> <trace.ndjson> [maxops]
//!   perpverif sint <out.ndjson>
mod bigvamm;
mod drivers;
mod msgs;
mod probe;
mod rec;
mod sint;
mod world;

use serde_json::{json, Value};
use std::fs::File;
use std::io::{BufRead, BufReader, BufWriter, Write};
use world::World;

pub struct Runner {
    pub w: World,
    pub scn: String,
    pub i: u64,
    pub out: Vec<Value>,
    /// ops actually executed (for replay files)
    pub ops: Vec<Value>,
}

pub fn classify(err: &str) -> &'static str {
    let pats: [(&str, &str); 34] = [
        ("injected failure", "injected"),
        ("panic:", "panic"),
        ("Only one action allowed", "restriction"),
        ("Margin engine is paused", "paused"),
        ("vAMM is not registered", "not_registered"),
        ("vAMM is not open", "closed"),
        ("amm is closed", "closed"),
        ("Position is undercollateralized", "undercollateralized"),
        ("Position is overcollateralized", "overcollateralized"),
        ("bad debt", "bad_debt"),
        ("Insufficient margin", "bad_debt"),
        ("Insufficient collateral", "insufficient_collateral"),
        ("sent funds are", "funds"),
        ("Native token balance mismatch", "funds"),
        ("No funds sent", "funds"),
        ("open interest exceeds cap", "cap"),
        ("base asset holding exceeds cap", "cap"),
        ("price is already over fluctuation limit", "fluctuation_already"),
        ("price is over fluctuation limit", "fluctuation"),
        ("Less than minimum", "slippage"),
        ("Greater than maximum", "slippage"),
        ("settle funding called too early", "too_early"),
        ("Position is zero", "zero_position"),
        ("No position found", "zero_position"),
        ("Input must be non-zero", "zero_input"),
        ("Leverage must be greater than 1", "leverage"),
        ("sender not margin engine", "unauthorized"),
        ("unauthorized", "unauthorized"),
        ("Caller is not admin", "unauthorized"),
        ("Unauthorized", "unauthorized"),
        ("Invalid ratio", "invalid_config"),
        ("Incorrect initialisation of margin ratios", "invalid_config"),
        ("spot_price_twap_interval should be", "invalid_config"),
        ("transfer failure", "transfer_failure"),
    ];
    for (p, c) in pats.iter() {
        if err.contains(p) {
            return c;
        }
    }
    "other"
}

impl Runner {
    pub fn new(scn: &str, dep: &Value) -> Runner {
        let w = World::deploy(dep);
        let mut r = Runner {
            w,
            scn: scn.to_string(),
            i: 0,
            out: vec![],
            ops: vec![],
        };
        let d = r.w.digest();
        let post = r.w.project();
        let mut depj = dep.clone();
        if !depj.is_object() {
            depj = json!({});
        }
        r.out.push(json!({
            "kind": "reset", "scn": r.scn, "i": 0, "deploy": depj,
            "tx": {"c": "", "m": "", "s": "", "a": {}, "funds": 0},
            "fault": 0, "fired": false,
            "res": {"ok": true, "err": "", "raw": "", "val": 0},
            "calls": [], "xfers": [], "swaps": [],
            "dpre": d, "dpost": d, "post": post
        }));
        r
    }

    fn push(&mut self, kind: &str, tx: Value, fault: u64, fired: bool, res: Value, dpre: String) {
        self.i += 1;
        let (calls, xfers, swaps) = {
            let r = self.w.rec.borrow();
            (r.calls.clone(), r.xfers.clone(), r.swaps.clone())
        };
        let dpost = self.w.digest();
        let post = self.w.project();
        let keep = kind == "tx";
        self.out.push(json!({
            "kind": kind, "scn": self.scn, "i": self.i,
            "tx": tx, "fault": fault, "fired": fired, "res": res,
            "calls": if keep { calls } else { vec![] },
            "xfers": if keep { xfers } else { vec![] },
            "swaps": if keep { swaps } else { vec![] },
            "dpre": dpre, "dpost": dpost, "post": post
        }));
    }

    /// State-aware input helpers (inputs only, no expectations): an op that names its amount relative to
    /// the current state is turned into an ordinary transaction.
    ///   flatten    : the trader opens the opposite side with exactly the current value of the position at 1x
    ///                (the engine closes the position through the reversal path and keeps a zero-size record)
    ///   oracle_rel : the oracle price is set to the vAMM's TWAP plus an offset
    pub fn resolve(&mut self, op: &Value) -> Option<Value> {
        let k = op["k"].as_str().unwrap_or("tx");
        match k {
            "flatten" => {
                let v = op["v"].as_str().unwrap_or("vamm1").to_string();
                let t = op["s"].as_str().unwrap_or("tr1").to_string();
                let q = self.w.build_query("engine", "unrealized_pnl", &json!({"vamm": v, "trader": t, "opt": "spot_price"})).ok()?;
                let res = self.w.query_raw("engine", &q).ok()?;
                let res = self.w.rec.borrow().norm(&res);
                let n = crate::world::num(&res["position_notional"]) + op["delta"].as_i64().unwrap_or(0);
                let q2 = self.w.build_query("engine", "position", &json!({"vamm": v, "trader": t})).ok()?;
                let p = self.w.query_raw("engine", &q2).ok()?;
                let p = self.w.rec.borrow().norm(&p);
                let size = crate::world::num(&p["size"]);
                if size == 0 || n <= 0 {
                    return None;
                }
                let side = if size > 0 { "sell" } else { "buy" };
                // optional slippage limit: the vAMM's own quote for this order plus an offset
                let limit = match op["lim_off"].as_i64() {
                    Some(off) => {
                        let dir = if side == "buy" { "add" } else { "rem" };
                        let q3 = self.w.build_query(&v, "input_amount", &json!({"dir": dir, "amount": n})).ok()?;
                        let r3 = self.w.query_raw(&v, &q3).ok()?;
                        (crate::world::num(&r3) + off).max(0)
                    }
                    None => 0,
                };
                Some(json!({"k": "tx", "c": "engine", "m": "open_position", "s": t,
                    "a": {"vamm": v, "side": side, "margin": n, "leverage": 100, "limit": limit},
                    "funds": op["funds"].as_i64().unwrap_or(0)}))
            }
            "open_lim" => {
                // an OpenPosition whose slippage limit is the vAMM's own quote for the trade plus an offset
                let v = op["v"].as_str().unwrap_or("vamm1").to_string();
                let t = op["s"].as_str().unwrap_or("tr1").to_string();
                let side = op["side"].as_str().unwrap_or("buy").to_string();
                let margin = op["margin"].as_i64().unwrap_or(100);
                let lev = op["leverage"].as_i64().unwrap_or(100);
                let d = 10i64.pow(self.w.dec);
                let notional = margin * lev / d;
                let dir = if side == "buy" { "add" } else { "rem" };
                let q = self.w.build_query(&v, "input_amount", &json!({"dir": dir, "amount": notional})).ok()?;
                let res = self.w.query_raw(&v, &q).ok()?;
                let limit = (crate::world::num(&res) + op["off"].as_i64().unwrap_or(0)).max(0);
                Some(json!({"k": "tx", "c": "engine", "m": "open_position", "s": t,
                    "a": {"vamm": v, "side": side, "margin": margin, "leverage": lev, "limit": limit},
                    "funds": op["funds"].as_i64().unwrap_or(0)}))
            }
            "offset" => {
                // an OpenPosition (1x) by `s` whose base amount is exactly minus the vAMM's net position: afterwards the
                // book is exactly flat with positions live.  The quote amount is found by bisection over the vAMM's own
                // InputAmount quotes; no order is placed when no quote amount yields exactly that base amount.
                let v = op["v"].as_str().unwrap_or("vamm1").to_string();
                let t = op["s"].as_str().unwrap_or("tr2").to_string();
                let post = self.out.last()?["post"].clone();
                let total = crate::world::num(&post["vamm"][&v]["st"]["total"]);
                if total == 0 {
                    return None;
                }
                let (side, dir) = if total < 0 { ("buy", "add") } else { ("sell", "rem") };
                let want = total.abs();
                let quote = |me: &Self, amt: i64| -> Option<i64> {
                    let q = me.w.build_query(&v, "input_amount", &json!({"dir": dir, "amount": amt})).ok()?;
                    let res = me.w.query_raw(&v, &q).ok()?;
                    Some(crate::world::num(&res))
                };
                let (mut lo, mut hi) = (1i64, crate::world::num(&post["vamm"][&v]["st"]["x"]) - 1);
                while lo < hi {
                    let mid = (lo + hi) / 2;
                    match quote(self, mid) {
                        Some(b) if b >= want => hi = mid,
                        Some(_) => lo = mid + 1,
                        None => hi = mid,
                    }
                }
                if quote(self, lo)? != want {
                    return None;
                }
                let native = post["eng"]["cfg"]["native"].as_bool().unwrap_or(false);
                Some(json!({"k": "tx", "c": "engine", "m": "open_position", "s": t,
                    "a": {"vamm": v, "side": side, "margin": lo, "leverage": 10i64.pow(self.w.dec), "limit": 0},
                    "funds": if native { lo } else { 0 }}))
            }
            "transfer_all" => {
                // the account moves its whole cw20 wallet (less `keep`) to another account
                let t = op["s"].as_str().unwrap_or("tr1").to_string();
                let to = op["to"].as_str().unwrap_or("stranger").to_string();
                let post = self.out.last()?["post"].clone();
                if post["eng"]["cfg"]["native"].as_bool().unwrap_or(false) {
                    return None;
                }
                let amt = self.w.balance(&t) - op["keep"].as_i64().unwrap_or(0);
                if amt <= 0 {
                    return None;
                }
                Some(json!({"k": "tx", "c": "token", "m": "transfer", "s": t, "a": {"recipient": to, "amount": amt}}))
            }
            "withdraw_rel" => {
                // a WithdrawMargin of the trader's free collateral (as the engine reports it) plus an offset
                let v = op["v"].as_str().unwrap_or("vamm1").to_string();
                let t = op["s"].as_str().unwrap_or("tr1").to_string();
                let q = self.w.build_query("engine", "free_collateral", &json!({"vamm": v, "trader": t})).ok()?;
                let res = self.w.query_raw("engine", &q).ok()?;
                let res = self.w.rec.borrow().norm(&res);
                let amt = (crate::world::num(&res) + op["off"].as_i64().unwrap_or(0)).max(1);
                Some(json!({"k": "tx", "c": "engine", "m": "withdraw_margin", "s": t, "a": {"vamm": v, "amount": amt}}))
            }
            "zero_equity" => {
                // a DepositMargin (or WithdrawMargin) that brings the position's equity (margin + spot pnl - funding owed)
                // to exactly `off` raw units
                let v = op["v"].as_str().unwrap_or("vamm1").to_string();
                let t = op["s"].as_str().unwrap_or("tr1").to_string();
                let q = self.w.build_query("engine", "unrealized_pnl", &json!({"vamm": v, "trader": t, "opt": "spot_price"})).ok()?;
                let r1 = self.w.query_raw("engine", &q).ok()?;
                let r1 = self.w.rec.borrow().norm(&r1);
                let pnl = crate::world::num(&r1["unrealized_pnl"]);
                let post = self.out.last()?["post"].clone();
                let p = post["eng"]["pos"][&v][&t].clone();
                let d = 10i64.pow(self.w.dec);
                let cpf = post["eng"]["vmap"][&v]["cpf"].as_array().and_then(|a| a.last()).map(crate::world::num).unwrap_or(0);
                let owed_raw = (cpf - crate::world::num(&p["lupf"])) * crate::world::num(&p["size"]);
                let owed = if owed_raw < 0 { -((-owed_raw) / d) } else { owed_raw / d };
                let eq = crate::world::num(&p["margin"]) + pnl - owed;
                let want = op["off"].as_i64().unwrap_or(0);
                let native = self.w.native;
                if eq < want {
                    let amt = want - eq;
                    Some(json!({"k": "tx", "c": "engine", "m": "deposit_margin", "s": t, "a": {"vamm": v, "amount": amt}, "funds": if native { amt } else { 0 }}))
                } else if eq > want {
                    Some(json!({"k": "tx", "c": "engine", "m": "withdraw_margin", "s": t, "a": {"vamm": v, "amount": eq - want}}))
                } else {
                    None
                }
            }
            "oracle_rel" => {
                let v = op["v"].as_str().unwrap_or("vamm1").to_string();
                let interval = op["interval"].as_i64().unwrap_or(3600);
                let q = self.w.build_query(&v, "twap_price", &json!({"interval": interval})).ok()?;
                let res = self.w.query_raw(&v, &q).ok()?;
                let price = (crate::world::num(&res) + op["off"].as_i64().unwrap_or(0)).max(1);
                let now = self.w.app.block_info().time.seconds();
                let key = self.w.base_asset(&v);
                Some(json!({"k": "tx", "c": "feed", "m": "append_price", "s": "owner", "a": {"key": key, "price": price, "t": now}}))
            }
            _ => Some(op.clone()),
        }
    }

    /// execute one op; returns (ok, fault_fired)
    pub fn op(&mut self, op: &Value) -> (bool, bool) {
        let k = op["k"].as_str().unwrap_or("tx");
        if k == "flatten" || k == "oracle_rel" || k == "open_lim" || k == "withdraw_rel" || k == "zero_equity" || k == "transfer_all" || k == "offset" {
            return match self.resolve(op) {
                Some(o) => self.op(&o),
                None => (false, false),
            };
        }
        match k {
            "block" => {
                self.ops.push(op.clone());
                let dpre = self.w.digest();
                let dh = op["dh"].as_u64().unwrap_or(1);
                let dt0 = op["dt"].as_u64().unwrap_or(15);
                let dns = op["dns"].as_u64().unwrap_or(0);
                let t_before = self.w.app.block_info().time.seconds();
                self.w.advance(dh, dt0, dns);
                // whole seconds actually elapsed (sub-second parts may carry)
                let dt = self.w.app.block_info().time.seconds() - t_before;
                self.w.rec.borrow_mut().begin_tx(0);
                self.w.rec.borrow_mut().end_tx();
                self.push(
                    "block",
                    json!({"c": "", "m": "block", "s": "", "a": {"dh": dh, "dt": dt}, "funds": 0}),
                    0,
                    false,
                    json!({"ok": true, "err": "", "raw": "", "val": 0}),
                    dpre,
                );
                (true, false)
            }
            "query" => {
                self.ops.push(op.clone());
                let dpre = self.w.digest();
                let c = op["c"].as_str().unwrap_or("");
                let q = op["q"].as_str().unwrap_or("");
                let a = op.get("a").cloned().unwrap_or(json!({}));
                self.w.rec.borrow_mut().begin_tx(0);
                self.w.rec.borrow_mut().end_tx();
                let res = match self.w.build_query(c, q, &a) {
                    Ok(m) => self.w.query_raw(c, &m),
                    Err(e) => Err(e),
                };
                let resj = match res {
                    Ok(v) => {
                        let nv = self.w.rec.borrow().norm(&v);
                        json!({"ok": true, "err": "", "raw": "", "val": nv})
                    }
                    Err(e) => {
                        json!({"ok": false, "err": classify(&e), "raw": trunc(&e), "val": 0})
                    }
                };
                let ok = resj["ok"].as_bool().unwrap_or(false);
                self.push("query", json!({"c": c, "m": q, "s": "", "a": a, "funds": 0}), 0, false, resj, dpre);
                (ok, false)
            }
            "sweep" => {
                // fault sweep: the same tx with a failure injected at call 2, 3, ... until the
                // injected index is never reached (that attempt runs normally and commits or fails naturally)
                let mut f = 2u64;
                loop {
                    let mut o = op.clone();
                    o["k"] = json!("tx");
                    o["fault"] = json!(f);
                    let (ok, fired) = self.op(&o);
                    if !fired || f > 40 {
                        return (ok, fired);
                    }
                    f += 1;
                }
            }
            _ => {
                self.ops.push(op.clone());
                let c = op["c"].as_str().unwrap_or("").to_string();
                let m = op["m"].as_str().unwrap_or("").to_string();
                let s = op["s"].as_str().unwrap_or("").to_string();
                let a = op.get("a").cloned().unwrap_or(json!({}));
                let funds = op["funds"].as_i64().unwrap_or(0);
                let fault = op["fault"].as_u64().unwrap_or(0);
                let dpre = self.w.digest();
                let (ok, err) = match self.w.build_exec(&c, &m, &a) {
                    Ok(b) => self.w.exec(&s, &c, b, funds, fault),
                    Err(e) => {
                        self.w.rec.borrow_mut().begin_tx(0);
                        self.w.rec.borrow_mut().end_tx();
                        (false, e)
                    }
                };
                let fired = self.w.rec.borrow().fault_fired;
                let resj = json!({"ok": ok, "err": if ok { "" } else { classify(&err) }, "raw": trunc(&err), "val": 0});
                self.push(
                    "tx",
                    json!({"c": c, "m": m, "s": s, "a": a, "funds": funds}),
                    fault,
                    fired,
                    resj,
                    dpre,
                );
                (ok, fired)
            }
        }
    }

    pub fn flush(&mut self, w: &mut dyn Write) {
        let big = self.w.dep.get("big").and_then(|x| x.as_bool()).unwrap_or(false);
        for e in self.out.drain(..) {
            if big {
                writeln!(w, "{}", stringify_amounts(&e, "")).unwrap();
            } else {
                writeln!(w, "{}", e).unwrap();
            }
        }
    }

    pub fn scenario_json(&self) -> Value {
        json!({"id": self.scn, "deploy": self.w.dep, "ops": self.ops})
    }
}

/// Production-scale traces: every number except block heights, times, counters and indices is
/// written as a string (TLC integers are 32-bit); the structural trace specification only compares
/// such fields for equality.
pub fn stringify_amounts(v: &Value, key: &str) -> Value {
    const KEEP: [&str; 20] = ["h", "t", "blk", "restr", "n", "i", "fault", "id", "dh", "dt", "next", "nsnaps",
        "npos", "twapint", "period", "buffer", "interval", "dec", "round_id", "limit_n"];
    match v {
        Value::Number(n) => {
            if KEEP.contains(&key) {
                v.clone()
            } else {
                Value::String(n.to_string())
            }
        }
        Value::Array(a) => Value::Array(a.iter().map(|x| stringify_amounts(x, key)).collect()),
        Value::Object(o) => {
            let mut m = serde_json::Map::new();
            for (k, x) in o {
                m.insert(k.clone(), stringify_amounts(x, k));
            }
            Value::Object(m)
        }
        other => other.clone(),
    }
}

fn trunc(s: &str) -> String {
    let t: String = s.chars().filter(|c| *c != '"' && *c != '\\' && *c != '\n').take(200).collect();
    t
}

fn main() {
    // contracts panic by design (unwrap); keep stderr quiet
    if std::env::var("PERPVERIF_PANICS").is_err() { std::panic::set_hook(Box::new(|_| {})); }
    let args: Vec<String> = std::env::args().collect();
    if args.len() < 2 {
        eprintln!("usage: perpverif run|random|sint ...");
        std::process::exit(2);
    }
    match args[1].as_str() {
        "run" => {
            let f = File::open(&args[2]).expect("scenario file");
            let mut out = BufWriter::new(File::create(&args[3]).expect("trace file"));
            let mut n = 0;
            for line in BufReader::new(f).lines() {
                let line = line.unwrap();
                if line.trim().is_empty() {
                    continue;
                }
                let scn: Value = serde_json::from_str(&line).expect("scenario json");
                let id = scn["id"].as_str().map(|s| s.to_string()).unwrap_or(format!("s{}", n));
                let dep = scn.get("deploy").cloned().unwrap_or(json!({}));
                let mut r = Runner::new(&id, &dep);
                if let Some(ops) = scn["ops"].as_array() {
                    for op in ops {
                        r.op(op);
                    }
                }
                r.flush(&mut out);
                n += 1;
            }
            out.flush().unwrap();
            println!("{{\"scenarios\": {}}}", n);
        }
        "random" => {
            let driver = args[2].as_str();
            let seed: u64 = args[3].parse().unwrap_or(1);
            let count: u64 = args[4].parse().unwrap_or(10);
            let mut out = BufWriter::new(File::create(&args[5]).expect("trace file"));
            let maxops: u64 = args.get(6).and_then(|x| x.parse().ok()).unwrap_or(25);
            let scn_out = args.get(7).map(|p| BufWriter::new(File::create(p).expect("scenario out")));
            drivers::run_random(driver, seed, count, maxops, &mut out, scn_out);
            out.flush().unwrap();
        }
        "twin" => {
            // lock-step execution on a cw20 and a native deployment: the native call attaches exactly
            // what the cw20 deployment pulled from the caller
            let f = File::open(&args[2]).expect("scenario file");
            let mut out = BufWriter::new(File::create(&args[3]).expect("trace file"));
            let mut n = 0;
            for line in BufReader::new(f).lines() {
                let line = line.unwrap();
                if line.trim().is_empty() {
                    continue;
                }
                let scn: Value = serde_json::from_str(&line).expect("scenario json");
                let id = scn["id"].as_str().map(|s| s.to_string()).unwrap_or(format!("s{}", n));
                let mut dep_cw = scn.get("deploy").cloned().unwrap_or(json!({}));
                let mut dep_nat = dep_cw.clone();
                dep_cw["collateral"] = json!("cw20");
                dep_nat["collateral"] = json!("native");
                let mut cw = Runner::new(&id, &dep_cw);
                let mut nat = Runner::new(&id, &dep_nat);
                let mut i = 0;
                writeln!(out, "{}", json!({"kind": "reset", "scn": id, "i": 0, "tx": cw.out[0]["tx"],
                    "cw": cw.out[0], "nat": nat.out[0], "funds": 0})).unwrap();
                cw.out.clear();
                nat.out.clear();
                if let Some(ops) = scn["ops"].as_array() {
                    for op in ops {
                        let k = op["k"].as_str().unwrap_or("tx");
                        if k == "sweep" {
                            continue;
                        }
                        let op = &match cw.resolve(op) { Some(o) => o, None => continue };
                        if op["c"].as_str() == Some("token") {
                            // a cw20 bookkeeping step of the caller (e.g. revoking an allowance): it has no native
                            // counterpart and is not a protocol operation - executed on the cw20 side only
                            cw.op(op);
                            let ev_cw = cw.out.pop().unwrap();
                            cw.out.clear();
                            nat.op(&json!({"k": "block", "dh": 0, "dt": 0}));
                            let mut ev_nat = nat.out.pop().unwrap();
                            nat.out.clear();
                            ev_nat["kind"] = ev_cw["kind"].clone();
                            ev_nat["tx"] = ev_cw["tx"].clone();
                            ev_nat["res"] = ev_cw["res"].clone();
                            i += 1;
                            writeln!(out, "{}", json!({"kind": ev_cw["kind"], "scn": id, "i": i, "tx": ev_cw["tx"],
                                "cw": ev_cw, "nat": ev_nat, "funds": 0})).unwrap();
                            continue;
                        }
                        let mut o_cw = op.clone();
                        o_cw["funds"] = json!(0);
                        o_cw["fault"] = json!(0);
                        cw.op(&o_cw);
                        let ev_cw = cw.out.pop().unwrap();
                        cw.out.clear();
                        // what the cw20 deployment pulled from the caller
                        let sender = op["s"].as_str().unwrap_or("");
                        let mut pulled: i64 = 0;
                        if let Some(xs) = ev_cw["xfers"].as_array() {
                            for x in xs {
                                if x["ok"].as_bool().unwrap_or(false) && x["from"].as_str() == Some(sender)
                                    && x["kind"].as_str() == Some("transfer_from") {
                                    pulled += x["amt"].as_i64().unwrap_or(0);
                                }
                            }
                        }
                        if !ev_cw["res"]["ok"].as_bool().unwrap_or(false) {
                            pulled = 0;
                        }
                        // cw20 can pay the caller out and pull from it in one transaction; coins must be held when the call
                        // is made: a caller whose wallet is smaller than the gross amount pulled attaches what it holds
                        let wallet = nat.w.balance(sender).max(0);
                        let short = pulled > wallet;
                        if short {
                            pulled = wallet;
                        }
                        let mut o_nat = op.clone();
                        o_nat["funds"] = json!(pulled);
                        o_nat["fault"] = json!(0);
                        nat.op(&o_nat);
                        let ev_nat = nat.out.pop().unwrap();
                        nat.out.clear();
                        i += 1;
                        writeln!(out, "{}", json!({"kind": ev_cw["kind"], "scn": id, "i": i, "tx": ev_cw["tx"],
                            "cw": ev_cw, "nat": ev_nat, "funds": pulled, "short": short})).unwrap();
                    }
                }
                n += 1;
            }
            out.flush().unwrap();
            println!("{{\"scenarios\": {}}}", n);
        }
        "bigvamm" => {
            // production-scale direct vAMM histories (limb-encoded amounts) for spec/trace/TraceBig.tla
            let seed: u64 = args[2].parse().unwrap_or(1);
            let per_pool: u64 = args[3].parse().unwrap_or(5);
            let maxops: u64 = args[4].parse().unwrap_or(30);
            let mut out = BufWriter::new(File::create(&args[5]).expect("trace file"));
            let (n, e) = bigvamm::run(seed, per_pool, maxops, &mut out);
            out.flush().unwrap();
            println!("{{\"scenarios\": {}, \"events\": {}}}", n, e);
        }
        "sint" => {
            let mut out = BufWriter::new(File::create(&args[2]).expect("out file"));
            sint::table(&mut out);
            out.flush().unwrap();
        }
        _ => {
            eprintln!("unknown command");
            std::process::exit(2);
        }
    }
}
