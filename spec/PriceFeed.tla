------------------------------ MODULE PriceFeed ------------------------------
(***************************************************************************)
(* Mirror of contracts/margined_pricefeed (kind "real") and of              *)
(* contracts/mocks/mock_pricefeed (kind "mock"), as seen by the vAMM's      *)
(* querier.  A feed is [kind, owner, price, rounds], rounds[key] a sequence *)
(* of [id, price, t]; the real feed's storage starts each key with a dummy  *)
(* round (id 0, price 0, t 0) the first time something is appended.         *)
(***************************************************************************)
EXTENDS Arith

Rounds(feed, key) ==
  IF key \in DOMAIN feed.rounds /\ feed.rounds[key] # <<>>
  THEN feed.rounds[key]
  ELSE << [id |-> 0, price |-> 0, t |-> 0] >>

(* state.rs::store_price_data *)
AppendRound(feed, key, price, t) ==
  LET rs == Rounds(feed, key)
  IN [feed EXCEPT !.rounds[key] = Append(rs, [id |-> Len(rs), price |-> price, t |-> t])]

(* handle.rs::append_multiple_price *)
RECURSIVE AppendMany(_, _, _, _, _)
AppendMany(feed, key, prices, ts, i) ==
  IF i > Len(prices) THEN feed ELSE AppendMany(AppendRound(feed, key, prices[i], ts[i]), key, prices, ts, i + 1)

(* query.rs::query_get_price -- the *record* the real feed answers with *)
RealGetPrice(feed, key) == Last(Rounds(feed, key))

(* query.rs::query_get_previous_price; ~ok = "Not enough history" *)
RealGetPreviousPrice(feed, key, n) ==
  LET rs == Rounds(feed, key)
  \* fix F18: round ids start at 1; round 0 is a placeholder
  IN IF n >= Last(rs).id THEN [ok |-> FALSE, r |-> Last(rs)] ELSE [ok |-> TRUE, r |-> rs[Len(rs) - n]]

(* query.rs::query_get_twap_price *)
RECURSIVE RealTwapLoop(_, _, _, _, _, _, _)
RealTwapLoop(rs, i, ts, cum, weighted, base, interval) ==
  \* rs[i] is `latest_round` at the top of the Rust loop
  IF rs[i].id = 1 THEN CDiv(weighted, cum)
  ELSE LET r == rs[i - 1]
       IN IF r.t <= base
          THEN (weighted + r.price * (ts - base)) \div interval
          ELSE IF ts < r.t THEN FAIL                       \* checked_sub(..).unwrap()
          ELSE RealTwapLoop(rs, i - 1, r.t, cum + (ts - r.t), weighted + r.price * (ts - r.t),
                            base, interval)

RealTwap(feed, key, now, interval) ==
  IF interval = 0 \/ now < interval THEN FAIL
  ELSE LET rs     == Rounds(feed, key)
           latest == Last(rs)
           base   == now - interval
       IN IF latest.id = 0 THEN FAIL
          ELSE IF latest.t < base \/ latest.id = 1 THEN latest.price
          ELSE IF now < latest.t THEN FAIL
          ELSE RealTwapLoop(rs, Len(rs), latest.t, now - latest.t,
                            latest.price * (now - latest.t), base, interval)

(***************************************************************************)
(* What the vAMM's querier obtains: the latest submitted price and the     *)
(* feed's TWAP.  The mock answers GetPrice with a bare number, the real    *)
(* feed with the whole latest round; the vAMM takes the price from either  *)
(* (before fix F4 it could not parse the latter, so no liquidation could   *)
(* succeed on a deployment using the repository's own price feed).         *)
(***************************************************************************)
UnderlyingPrice(feed, key) ==
  IF feed.kind = "mock" THEN feed.price ELSE Last(Rounds(feed, key)).price
UnderlyingTwap(feed, key, now, interval) ==
  IF feed.kind = "mock" THEN feed.price ELSE RealTwap(feed, key, now, interval)
=============================================================================
