------------------------------- MODULE TraceBig -------------------------------
(***************************************************************************)
(* C01 / C17 at the repository's REAL scale.  The reduced scale of the       *)
(* other traces (2 decimals, reserves below 2^31) cannot show behaviour that *)
(* depends on magnitude: 9- and 18-decimal pools, a reserve beyond 64 bits,  *)
(* a product just under 128 bits.  Here a vAMM with 6 / 9 / 12 / 18 decimals *)
(* is driven directly (harness command `bigvamm`), every amount is recorded  *)
(* as a little-endian list of base-10^4 limbs, and TLC judges the recorded   *)
(* reserves with the big-natural arithmetic of BigNat.tla:                   *)
(*   C01.kmono   floor(x*y / 10^dec) never decreases                         *)
(*   C01.base    base reserve + net position = initial base reserve          *)
(*   C01.return  back at an earlier net position the quote reserve is at     *)
(*               least what it was then (ghost: largest x seen per net size) *)
(*   C17.exact   the requested side moves by exactly the requested amount    *)
(*   C17.quote   the amount quoted in a state = the amount the swap executed *)
(*               in that state exchanges                                     *)
(*   *.failed    a rejected swap changes nothing                             *)
(* Selected by the environment variable ONLY (C01 / C17).                    *)
(***************************************************************************)
EXTENDS BigNat, Json, IOUtils, TLC, FiniteSets

Rec  == ndJsonDeserialize(IOEnv.TRACE)
Only == IOEnv.ONLY

VARIABLES l, y0, seen, hits
vars == <<l, y0, seen, hits>>

Bump(h, tags) == [t \in (DOMAIN h) \cup tags |->
                    (IF t \in DOMAIN h THEN h[t] ELSE 0) + (IF t \in tags THEN 1 ELSE 0)]

\* a \div d for a small d (1 <= d < B), limb by limb from the top
RECURSIVE DivSmallFrom(_, _, _, _)
DivSmallFrom(a, d, i, r) ==
  IF i = 0 THEN <<>>
  ELSE LET cur == r * B + a[i]
       IN DivSmallFrom(a, d, i - 1, cur % d) \o <<cur \div d>>
DivSmall(a, d) == IF d = 1 THEN a ELSE Norm(DivSmallFrom(a, d, Len(a), 0))
Pow10(k) == IF k = 0 THEN 1 ELSE IF k = 1 THEN 10 ELSE IF k = 2 THEN 100 ELSE 1000
DropLimbs(a, k) == IF Len(a) <= k THEN <<0>> ELSE SubSeq(a, k + 1, Len(a))
FloorDivPow10(a, k) == DivSmall(DropLimbs(a, k \div 4), Pow10(k % 4))

Scaled(e, dec) == FloorDivPow10(Mul(e.x, e.y), dec)
AbsDiff(a, b) == IF Le(b, a) THEN Sub(a, b) ELSE Sub(b, a)
Two64 == <<1616, 955, 737, 6744, 1844>>        \* 2^64 = 18446744073709551616
Deep(e) == Lt(Two64, e.x) \/ Lt(Two64, e.y)

Tag(ok, t) == IF ok THEN {} ELSE {t}

DecOf(k) == Rec[k].dec
RECURSIVE ResetBefore(_)
ResetBefore(k) == IF Rec[k].kind = "reset" THEN k ELSE ResetBefore(k - 1)

Viol(S, e, dec) ==
  IF ~e.ok
  THEN Tag(e.x = S.x /\ e.y = S.y /\ e.total = S.total, IF Only = "C01" THEN "C01.failed_changed" ELSE "C17.failed_changed")
  ELSE IF Only = "C01"
  THEN Tag(Le(Scaled(S, dec), Scaled(e, dec)), "C01.kmono")
       \cup Tag(IF e.total.neg THEN Eq(e.y, Add(y0, e.total.l)) ELSE Eq(Add(e.y, e.total.l), y0), "C01.base")
       \cup Tag(\A p \in seen : (p.neg = e.total.neg /\ p.l = e.total.l) => Le(p.x, e.x), "C01.return")
  ELSE IF Only = "C17"
  THEN (IF e.op = "swap_input"
        THEN Tag(IF e.dir = "add" THEN Eq(e.x, Add(S.x, e.amount)) ELSE Eq(Add(e.x, e.amount), S.x), "C17.exact")
             \cup Tag(~e.quoted_ok \/ Eq(AbsDiff(e.y, S.y), e.quoted), "C17.quote")
        ELSE Tag(IF e.dir = "add" THEN Eq(e.y, Add(S.y, e.amount)) ELSE Eq(Add(e.y, e.amount), S.y), "C17.exact")
             \cup Tag(~e.quoted_ok \/ Eq(AbsDiff(e.x, S.x), e.quoted), "C17.quote"))
  ELSE {}

SeenNext(s, e) ==
  IF ~e.ok THEN s
  ELSE LET same == {p \in s : p.neg = e.total.neg /\ p.l = e.total.l}
       IN IF same = {} THEN s \cup {[neg |-> e.total.neg, l |-> e.total.l, x |-> e.x]}
          ELSE LET old == CHOOSE p \in same : TRUE
               IN IF Lt(old.x, e.x) THEN (s \ {old}) \cup {[neg |-> e.total.neg, l |-> e.total.l, x |-> e.x]} ELSE s

Ante(S, e, dec) ==
  {"events"} \cup (IF e.ok THEN {"swap", e.op} ELSE {"rejected"})
  \cup (IF e.ok /\ Deep(S) THEN {"reserve_beyond_64_bits"} ELSE {})
  \cup (IF e.ok /\ dec >= 9 THEN {"decimals_9_or_more"} ELSE {})
  \cup (IF e.ok /\ dec = 18 THEN {"decimals_18"} ELSE {})
  \cup (IF e.ok /\ e.quoted_ok THEN {"quoted"} ELSE {})
  \cup (IF e.ok /\ (\E p \in seen : p.neg = e.total.neg /\ p.l = e.total.l) THEN {"return"} ELSE {})
  \cup (IF e.ok /\ Scaled(S, dec) # Scaled(e, dec) THEN {"remainder"} ELSE {})

TraceInit ==
  /\ l = 1 /\ Rec[1].kind = "reset"
  /\ y0 = Rec[1].y
  /\ seen = {[neg |-> FALSE, l |-> <<0>>, x |-> Rec[1].x]}
  /\ hits = [t \in {"events"} |-> 1]

TraceStep ==
  /\ l < Len(Rec)
  /\ LET e == Rec[l + 1]
         S == Rec[l]
     IN IF e.kind = "reset"
        THEN /\ y0' = e.y
             /\ seen' = {[neg |-> FALSE, l |-> <<0>>, x |-> e.x]}
             /\ hits' = Bump(hits, {"events", "scenarios"})
        ELSE LET dec == DecOf(ResetBefore(l))
                 bad == Viol(S, e, dec)
             IN /\ \A t \in bad : PrintT(<<"VIOL", l + 1, e.scn, e.i, t, "">>)
                /\ y0' = y0
                /\ seen' = SeenNext(seen, e)
                /\ hits' = Bump(hits, Ante(S, e, dec))
  /\ l' = l + 1
  /\ (l' = Len(Rec)) => PrintT(<<"HITS", ToJson(hits')>>)

TraceSpec == TraceInit /\ [][TraceStep]_vars
TraceAccepted == TLCGet("stats").diameter = Len(Rec)
                 \/ (PrintT(<<"REJECTED", TLCGet("stats").diameter, Len(Rec)>>) /\ FALSE)
=============================================================================
