-------------------------------- MODULE Trace --------------------------------
(***************************************************************************)
(* Trace validation: a behaviour recorded from the real contracts (NDJSON,  *)
(* one event per line, file named by the environment variable TRACE) is     *)
(* replayed as a TLA+ behaviour.  Every variable of the abstract state is   *)
(* bound from the log, so the behaviour is a single path; at each step TLC  *)
(* evaluates the property predicates of Props.tla on (pre, event, post).    *)
(* Violations and exercised antecedents are reported on stdout as           *)
(*   <<"VIOL", line, scenario, index, tag, finding>>   and  <<"HITS", f>>.  *)
(* The property to check is selected with the environment variable ONLY.    *)
(***************************************************************************)
EXTENDS Findings, Conf, Extras, Json, IOUtils

Rec  == ndJsonDeserialize(IOEnv.TRACE)
Only == IOEnv.ONLY

VARIABLES l, aux, hits, nviol, keys, ndist
vars == <<l, aux, hits, nviol, keys, ndist>>

Bump(h, tags) == [t \in (DOMAIN h) \cup tags |->
                    (IF t \in DOMAIN h THEN h[t] ELSE 0) + (IF t \in tags THEN 1 ELSE 0)]

TraceInit ==
  /\ l = 1
  /\ Rec[1].kind = "reset"
  /\ aux = AuxInit(Rec[1].post)
  /\ hits = [t \in {"events"} |-> 1]
  /\ nviol = 0
  /\ keys = {}
  /\ ndist = 0

Report(line, e, tags, S, T) ==
  \A t \in tags : PrintT(<<"VIOL", line, e.scn, e.i, t, FindingOf(t, S, e, T)>>)

TraceStep ==
  /\ l < Len(Rec)
  /\ LET e == Rec[l + 1]
         S == Rec[l].post
         T == e.post
     IN IF e.kind # "reset" /\ ~(SafeWorld(S) /\ SafeWorld(T))
        THEN \* reserves beyond what TLC's integers can multiply: no verdict on this step
             /\ aux' = AuxNextUnsafe(aux, S, e, T) /\ nviol' = nviol /\ keys' = keys /\ ndist' = ndist
             /\ hits' = Bump(hits, {"events", "unsafe_skipped"})
        ELSE IF e.kind = "reset"
        THEN /\ aux' = AuxInit(T)
             /\ hits' = Bump(hits, {"events", "scenarios"})
             /\ nviol' = nviol
             /\ keys' = {}
             /\ ndist' = ndist + Cardinality(keys)
        ELSE LET bad == IF Only \in {"CONF", "EXTRA"} THEN {} ELSE Violations(Only, S, e, T, aux)
                 ant == IF Only = "CONF"
                        THEN (IF e.kind \in {"block", "query"} \/ Modelled(S, e) THEN {"modelled", e.tx.m} ELSE {"unmodelled"})
                        ELSE Antecedents(Only, S, e, T, aux)
                 drift == IF Only = "CONF"
                          THEN DriftOf(S, e, T)
                               \* the ghost snapshot list (Props.tla) must equal the stored one on a faithful tree
                               \cup (IF \E v \in Vs(T) : AuxNext(aux, S, e, T).gsnaps[v] # T.vamm[v].snaps THEN {"gsnaps"} ELSE {})
                               \cup (IF \E v \in Vs(T) : AuxNext(aux, S, e, T).gcpf[v] # Cpf(T, v) THEN {"gcpf"} ELSE {})
                               \cup (IF LET g == AuxNext(aux, S, e, T).gate
                                         IN g.paused # T.eng.st.paused \/ (\E v \in Vs(T) : g.open[v] # T.vamm[v].st.open)
                                            \/ g.reg # {T.ifund.vamms[i] : i \in 1..Len(T.ifund.vamms)}
                                     THEN {"ggate"} ELSE {})
                               \cup (IF \E v \in Vs(T), t \in Traders :
                                         T.eng.pos[v][t].exists /\ T.eng.pos[v][t].size # 0
                                         /\ AuxNext(aux, S, e, T).chk[v][t] # T.eng.pos[v][t].lupf THEN {"gchk"} ELSE {})
                          ELSE {}
                 extra == IF Only = "EXTRA" THEN X_All(S, e, T) ELSE {}
             IN /\ Report(l + 1, e, bad, S, T)
                /\ \A d \in drift : PrintT(<<"DRIFT", l + 1, e.scn, e.i, d, e.tx.m>>)
                /\ \A d \in extra : PrintT(<<"DRIFT", l + 1, e.scn, e.i, d, e.tx.m>>)
                /\ aux' = AuxNext(aux, S, e, T)
                /\ hits' = Bump(hits, ant \cup {"events"})
                /\ nviol' = nviol + Cardinality(bad)
                /\ keys' = IF ant = {} THEN keys ELSE keys \cup {<<e.dpre, e.fault, ToJson(e.tx)>>}
                /\ ndist' = ndist
  /\ l' = l + 1
  /\ (l' = Len(Rec)) => PrintT(<<"HITS", ToJson(Bump(hits', {}) @@ [distinct_nontrivial |-> ndist' + Cardinality(keys')])>>)

TraceSpec == TraceInit /\ [][TraceStep]_vars

\* the whole trace must be consumed: anything else is a malformed trace (a tool error)
TraceAccepted ==
  \/ TLCGet("stats").diameter = Len(Rec)
  \/ PrintT(<<"REJECTED", TLCGet("stats").diameter, Len(Rec)>>) /\ FALSE
=============================================================================
