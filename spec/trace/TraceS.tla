-------------------------------- MODULE TraceS --------------------------------
(***************************************************************************)
(* Structural trace validation at PRODUCTION scale (6 decimals, the         *)
(* repository's real denominations).  Amounts are far beyond TLC's 32-bit    *)
(* integers, so the harness writes every amount as a string and this         *)
(* specification only uses the predicates that need no arithmetic:           *)
(* C08 (atomicity, residue), C09 (roles), C10 (frame), C14 (gates,           *)
(* registry, shutdown), C16 (restriction mode).  It shows that the verdicts  *)
(* for these properties do not depend on the reduced scale or on the         *)
(* cfg(margined_verif) hook (at 6 decimals the hook is not exercised).       *)
(***************************************************************************)
EXTENDS Findings, Json, IOUtils

Rec  == ndJsonDeserialize(IOEnv.TRACE)
Only == IOEnv.ONLY

VARIABLES l, aux, hits
vars == <<l, aux, hits>>

Bump(h, tags) == [t \in (DOMAIN h) \cup tags |->
                    (IF t \in DOMAIN h THEN h[t] ELSE 0) + (IF t \in tags THEN 1 ELSE 0)]

\* only the ghosts that need no arithmetic
AuxS0(W) == [liqblk |-> [v \in Vs(W) |-> 0],
             upd |-> [v \in Vs(W) |-> [t \in Traders |-> IF W.eng.pos[v][t].exists THEN W.eng.pos[v][t].blk ELSE 0]],
             roles |-> W.given, gate |-> GateInit(W)]
AuxSNext(a, S, e, T) ==
  [liqblk |-> [v \in Vs(T) |-> IF EngOp(e, "liquidate") /\ e.res.ok /\ e.tx.a.vamm = v THEN S.blk.h ELSE a.liqblk[v]],
   upd |-> UpdNext(a.upd, S, e, T),
   roles |-> RolesNext(a.roles, S, e, T), gate |-> GateNext(a.gate, S, e, T)]

StructViol(S, e, T, a) ==
  CASE Only = "C08" -> V_C08(S, e, T, a)
    [] Only = "C09" -> V_C09(S, e, T, a)
    [] Only = "C10" -> V_C10(S, e, T, a)
    [] Only = "C14" -> V_C14(S, e, T, a)
    [] Only = "C16" -> V_C16(S, e, T, a)
    [] OTHER -> {}
StructAnte(S, e, T, a) ==
  IF e.kind # "tx" THEN {e.kind}
  ELSE {"tx", IF e.res.ok THEN "ok" ELSE "failed"} \cup (IF e.fired THEN {"injected"} ELSE {})
       \cup (IF e.tx.c = "engine" THEN {e.tx.m} ELSE {})

TraceInit == l = 1 /\ Rec[1].kind = "reset" /\ aux = AuxS0(Rec[1].post) /\ hits = [t \in {"events"} |-> 1]
TraceStep ==
  /\ l < Len(Rec)
  /\ LET e == Rec[l + 1]
         S == Rec[l].post
         T == e.post
     IN IF e.kind = "reset"
        THEN aux' = AuxS0(T) /\ hits' = Bump(hits, {"events", "scenarios"})
        ELSE LET bad == StructViol(S, e, T, aux)
             IN /\ \A t \in bad : PrintT(<<"VIOL", l + 1, e.scn, e.i, t, IF Only = "C16" THEN FindingOf(t, S, e, T) ELSE "">>)
                /\ aux' = AuxSNext(aux, S, e, T)
                /\ hits' = Bump(hits, StructAnte(S, e, T, aux) \cup {"events"})
  /\ l' = l + 1
  /\ (l' = Len(Rec)) => PrintT(<<"HITS", ToJson(hits')>>)
TraceSpec == TraceInit /\ [][TraceStep]_vars
TraceAccepted == TLCGet("stats").diameter = Len(Rec)
                 \/ (PrintT(<<"REJECTED", TLCGet("stats").diameter, Len(Rec)>>) /\ FALSE)
=============================================================================
