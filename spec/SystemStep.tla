----------------------------- MODULE SystemStep -----------------------------
(***************************************************************************)
(* A deployment at MICRO-STEP granularity: one TLC state per contract entry *)
(* (execute / reply / unwind) of the small-step message VM (VmStep.tla).    *)
(* System.tla sees a transaction as one atomic transition; here TLC walks    *)
(* through the inside of every transaction - with a failure injected at any  *)
(* call index - and checks, in every intermediate configuration, the         *)
(* invariants behind C08:                                                   *)
(*   MicroInv   structural: the outermost cache is the pre-state, a swap is  *)
(*              in flight only under an in-flight record, bounded depth,     *)
(*              only protocol contracts send sub-messages;                   *)
(*   EndInv     at the end of every transaction: failed => the world is the  *)
(*              pre-state; succeeded => no sub-call failed (nothing was      *)
(*              swallowed); either way no in-flight record is left; the      *)
(*              step predicates of C08 (Props.tla) hold on the event;        *)
(*   Refinement the small-step run equals the big-step function RunTx of     *)
(*              Vm.tla (state, logs, error class) - so everything checked    *)
(*              with System.tla / trace validation talks about the same      *)
(*              semantics.                                                   *)
(***************************************************************************)
EXTENDS Findings, VmStep, Json

CONSTANTS InitW, TxAlphabet, Gaps, Faults, MaxDepth, Known

VARIABLES W,      \* committed world (between transactions)
          Kf,      \* configuration of the VM (status "idle" between transactions)
          cur,    \* the transaction in progress / just finished: [tx, fault]
          aux, hist
vars == <<W, Kf, cur, aux, hist>>
View == <<W, Kf, cur, aux>>

Idle == [W |-> InitW, stack |-> <<>>, status |-> "idle", ctx |-> Ctx0(0), err |-> ""]
NoTx == [c |-> "", m |-> "", s |-> "", a |-> [nil |-> 0], funds |-> 0]

Init == /\ W = InitW /\ Kf = Idle /\ cur = [tx |-> NoTx, fault |-> 0]
        /\ aux = AuxInit(InitW) /\ hist = <<>>

Event(tx, fault, k, pre, post) ==
  [kind |-> "tx", scn |-> "mcstep", i |-> Len(hist), tx |-> tx, fault |-> fault, fired |-> k.ctx.fired,
   res |-> [ok |-> k.status = "ok", err |-> k.err, val |-> 0],
   calls |-> k.ctx.calls, xfers |-> k.ctx.xfers, swaps |-> k.ctx.swaps,
   dpre |-> "a", dpost |-> IF post = pre THEN "a" ELSE "b"]

Start(tx, f) ==
  /\ ~Running(Kf) /\ Len(hist) < MaxDepth
  /\ Kf' = Begin(W, tx, f)
  /\ cur' = [tx |-> tx, fault |-> f]
  /\ hist' = Append(hist, [k |-> "tx", c |-> tx.c, m |-> tx.m, s |-> tx.s, a |-> tx.a, funds |-> tx.funds, fault |-> f])
  /\ UNCHANGED <<W, aux>>

Micro ==
  /\ Running(Kf)
  /\ LET k == MicroStep(Kf)
     IN /\ Kf' = k
        /\ IF Running(k) THEN UNCHANGED <<W, aux>>
           ELSE /\ k.err # "over" /\ SafeWorld(k.W)            \* inside what 32-bit integers can multiply
                /\ (cur.fault # 0 => k.ctx.fired)              \* only faults that hit a call
                /\ W' = k.W
                /\ aux' = AuxNext(aux, W, Event(cur.tx, cur.fault, k, W, k.W), k.W)
  /\ UNCHANGED <<cur, hist>>

Block(dt) ==
  /\ ~Running(Kf) /\ Len(hist) < MaxDepth
  /\ W' = AdvanceBlock(W, 1, dt)
  /\ Kf' = [Idle EXCEPT !.W = W']
  /\ hist' = Append(hist, [k |-> "block", dh |-> 1, dt |-> dt])
  /\ UNCHANGED <<cur, aux>>

Next == \/ \E tx \in TxAlphabet, f \in Faults : Start(tx, f)
        \/ Micro
        \/ \E dt \in Gaps : Block(dt)
Spec == Init /\ [][Next]_vars

----------------------------------------------------------------------------
MicroInv ==
  Running(Kf) =>
    /\ RootSnapIs(Kf, W)
    /\ SwapNeedsTmp(Kf)
    /\ Depth(Kf) <= 6
    /\ SendersOK(Kf)

Ended == Kf.status \in {"ok", "failed"}
EndInv ==
  Ended =>
    /\ (Kf.status = "ok" => \A i \in 1..Len(Kf.ctx.calls) : Kf.ctx.calls[i].ok)   \* nothing swallowed
    /\ (Kf.ctx.fired => Kf.status = "failed")
    /\ ~Kf.W.eng.tmp.swap /\ ~Kf.W.eng.tmp.funds /\ ~Kf.W.eng.tmp.liq          \* no residue

(* W' = k.W is assigned in the same step in which the transaction ends, so in an Ended state W
   already is the post-state; the pre-state comparison is therefore made as an action property *)
Atomic ==
  [][ (Running(Kf) /\ ~Running(Kf')) =>
        /\ (Kf'.status = "failed" => W' = W)
        /\ LET e == Event(cur.tx, cur.fault, Kf', W, W')
               bad == {t \in Violations("C08", W, e, W', aux) : FindingOf(t, W, e, W') \notin Known}
           IN bad = {} \/ (PrintT(<<"MCVIOL", CHOOSE t \in bad : TRUE, ToJson(hist)>>) /\ FALSE)
        /\ \/ SmallResult(Kf') = BigResult(W, cur.tx, cur.fault)
           \/ PrintT(<<"MCVIOL", "refinement", ToJson(hist)>>) /\ FALSE ]_vars

\* the invariants as TLC checks them: a violation prints the history as a replayable scenario
MicroInvP == MicroInv \/ (PrintT(<<"MCVIOL", "C08.micro_invariant", ToJson(hist)>>) /\ FALSE)
EndInvP   == EndInv   \/ (PrintT(<<"MCVIOL", "C08.end_invariant", ToJson(hist)>>) /\ FALSE)
=============================================================================
