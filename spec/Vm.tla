--------------------------------- MODULE Vm ---------------------------------
(***************************************************************************)
(* The message VM: CosmWasm dispatch semantics as implemented by            *)
(* cw-multi-test 0.13.4 (wasm.rs::execute_submsg / _reply), which is what   *)
(* the conformance harness runs the real contracts under.                   *)
(*                                                                         *)
(*  - a message executes in its own transactional cache: on failure every   *)
(*    write it (and its sub-messages) made is dropped;                      *)
(*  - sub-messages of a response run depth-first, in order, before control  *)
(*    returns to the caller's next sibling;                                 *)
(*  - reply_on Always / Success: reply(Ok) runs in the parent after a       *)
(*    successful sub-message, and the messages *it* returns run before the  *)
(*    next sibling; Always / Error: reply(Err) runs after a failed one --   *)
(*    if that reply returned Ok the parent would continue (a swallowed      *)
(*    error); otherwise the error propagates;                               *)
(*  - any error reaching the top discards the whole transaction.            *)
(*                                                                         *)
(* Every execute (contract, token, bank send) increments a call counter;    *)
(* ctx.fault = n makes the n-th call fail instead of running (the harness's *)
(* probes do the same on the real contracts).  The VM also records the      *)
(* observable log: calls, collateral transfers, swaps.                      *)
(***************************************************************************)
EXTENDS Engine

Ctx0(fault) == [cnt |-> 0, fault |-> fault, fired |-> FALSE, calls |-> <<>>, xfers |-> <<>>, swaps |-> <<>>]

CallArgs(m) == IF m.op = "swap_input" THEN [base_asset_limit |-> m.a.limit, quote_asset_limit |-> 0]
               ELSE IF m.op = "swap_output" THEN [base_asset_limit |-> 0, quote_asset_limit |-> m.a.limit]
               ELSE [base_asset_limit |-> 0, quote_asset_limit |-> 0]
CallM(ctx, from, m, ok, injected) ==
  [ctx EXCEPT !.calls = Append(@, [n |-> ctx.cnt, to |-> m.to, from |-> from, entry |-> "execute",
                                   msg |-> IF m.to = "bank" THEN "bank_send" ELSE m.op,
                                   args |-> CallArgs(m), ok |-> ok, injected |-> injected])]
ReplyCall(ctx, contract, id, ok) ==
  [ctx EXCEPT !.calls = Append(@, [n |-> ctx.cnt, to |-> contract, from |-> contract, entry |-> "reply",
                                   msg |-> "reply_" \o ToString(id),
                                   args |-> [base_asset_limit |-> 0, quote_asset_limit |-> 0],
                                   ok |-> ok, injected |-> FALSE])]

NoData == [input |-> 0, output |-> 0, vamm |-> "", frac |-> 0]

----------------------------------------------------------------------------
(* cw20-base as used (Transfer, TransferFrom with the engine as spender) and the bank module *)
LedgerExec(W, from, m) ==
  LET amt == m.a.amount
  IN IF m.to = "bank" \/ m.op = "transfer"
     THEN \* bank send / cw20 transfer from the caller's own balance
          IF amt = 0 \/ W.bal[from] < amt THEN [ok |-> FALSE, W |-> W]
          ELSE [ok |-> TRUE, W |-> [W EXCEPT !.bal[from] = @ - amt, !.bal[m.a.to] = @ + amt]]
     ELSE \* cw20 transfer_from: spender `from` moves the owner's tokens using its allowance
          LET o == m.a.owner
          IN IF amt = 0 \/ from # "engine" \/ W.allow[o] < amt \/ W.bal[o] < amt THEN [ok |-> FALSE, W |-> W]
             ELSE [ok |-> TRUE, W |-> [W EXCEPT !.bal[o] = @ - amt, !.bal[m.a.to] = @ + amt, !.allow[o] = @ - amt]]

XferOf(W, from, m, n, ok) ==
  [n |-> n, kind |-> IF m.to = "bank" THEN "bank_send" ELSE m.op,
   from |-> IF m.op = "transfer_from" THEN m.a.owner ELSE from, to |-> m.a.to, amt |-> m.a.amount, ok |-> ok]

----------------------------------------------------------------------------
(* the other contracts' execute entry points: [ok, W, msgs, data] *)
HRes(ok, W, msgs, data) == [ok |-> ok, W |-> W, msgs |-> msgs, data |-> data, err |-> ""]

VammExec(W, v, from, op, a) ==
  LET vm == W.vamm[v]
  IN CASE op = "swap_input" ->
            LET r == SwapInput(vm, W.blk, from, a.dir, a.amount, a.limit, a.over)
            IN HRes(r.ok, [W EXCEPT !.vamm[v] = r.v], <<>>,
                    [NoData EXCEPT !.input = r.q, !.output = r.b])
       [] op = "swap_output" ->
            LET r == SwapOutput(vm, W.blk, from, a.dir, a.amount, a.limit)
            IN HRes(r.ok, [W EXCEPT !.vamm[v] = r.v], <<>>,
                    [NoData EXCEPT !.input = r.b, !.output = r.q])
       [] op = "settle_funding" ->
            LET r == SettleFunding(vm, W.blk, from, OracleTwap(W, v, vm.cfg.twapint))
            IN HRes(r.ok, [W EXCEPT !.vamm[v] = r.v], <<>>, [NoData EXCEPT !.vamm = v, !.frac = r.frac])
       [] op = "set_open" ->
            LET r == SetOpen(vm, W.blk, from, a.open) IN HRes(r.ok, [W EXCEPT !.vamm[v] = r.v], <<>>, NoData)
       [] op = "update_owner" ->
            IF from # vm.owner THEN HRes(FALSE, W, <<>>, NoData)
            ELSE HRes(TRUE, [W EXCEPT !.vamm[v].owner = a.owner], <<>>, NoData)
       [] op = "update_config" ->
            LET c == vm.cfg
                bad == \/ (Has(a, "toll") /\ a.toll > c.D) \/ (Has(a, "spread") /\ a.spread > c.D)
                       \/ (Has(a, "fluct") /\ a.fluct > c.D)
                       \/ (Has(a, "twapint") /\ (a.twapint < ONE_MINUTE \/ a.twapint > ONE_WEEK))
            IN IF from # vm.owner \/ bad THEN HRes(FALSE, W, <<>>, NoData)
               ELSE HRes(TRUE, [W EXCEPT !.vamm[v].cfg =
                                   [c EXCEPT !.hcap = IF Has(a, "hcap") THEN a.hcap ELSE c.hcap,
                                             !.oicap = IF Has(a, "oicap") THEN a.oicap ELSE c.oicap,
                                             !.engine = IF Has(a, "engine") THEN a.engine ELSE c.engine,
                                             !.ifund = IF Has(a, "ifund") THEN a.ifund ELSE c.ifund,
                                             !.feed = IF Has(a, "feed") THEN a.feed ELSE c.feed,
                                             !.toll = IF Has(a, "toll") THEN a.toll ELSE c.toll,
                                             !.spread = IF Has(a, "spread") THEN a.spread ELSE c.spread,
                                             !.fluct = IF Has(a, "fluct") THEN a.fluct ELSE c.fluct,
                                             !.twapint = IF Has(a, "twapint") THEN a.twapint ELSE c.twapint]],
                        <<>>, NoData)
       [] OTHER -> HRes(FALSE, W, <<>>, NoData)

InList(s, x) == \E i \in 1..Len(s) : s[i] = x
SwapRemove(s, x) ==
  LET i == CHOOSE i \in 1..Len(s) : s[i] = x
      n == Len(s)
  IN IF i = n THEN SubSeq(s, 1, n - 1) ELSE [SubSeq(s, 1, n - 1) EXCEPT ![i] = s[n]]

FundExec(W, from, op, a) ==
  LET f == W.ifund
  IN CASE op = "withdraw" ->
            IF from # f.engine THEN HRes(FALSE, W, <<>>, NoData)
            ELSE HRes(TRUE, W, <<[to |-> IF W.eng.cfg.native THEN "bank" ELSE "token",
                                  op |-> IF W.eng.cfg.native THEN "send" ELSE "transfer",
                                  a |-> [to |-> f.engine, amount |-> a.amount], funds |-> 0, id |-> 0, on |-> "never"]>>, NoData)
       [] op = "update_owner" ->
            IF from # f.owner THEN HRes(FALSE, W, <<>>, NoData)
            ELSE HRes(TRUE, [W EXCEPT !.ifund.owner = a.owner], <<>>, NoData)
       [] op = "add_vamm" ->
            IF from # f.owner \/ ~(a.vamm \in DOMAIN W.vamm) \/ f.engine # "engine" THEN HRes(FALSE, W, <<>>, NoData)
            ELSE IF W.vamm[a.vamm].cfg.D # W.eng.cfg.D \/ InList(f.vamms, a.vamm) \/ Len(f.vamms) >= 3
                 THEN HRes(FALSE, W, <<>>, NoData)
            ELSE HRes(TRUE, [W EXCEPT !.ifund.vamms = Append(@, a.vamm), !.ifund.has_list = TRUE], <<>>, NoData)
       [] op = "remove_vamm" ->
            IF from # f.owner \/ ~f.has_list \/ ~InList(f.vamms, a.vamm) THEN HRes(FALSE, W, <<>>, NoData)
            ELSE HRes(TRUE, [W EXCEPT !.ifund.vamms = SwapRemove(@, a.vamm)], <<>>, NoData)
       [] op = "shutdown_vamms" ->
            IF (from # f.owner /\ from # "ifund") \/ ~f.has_list THEN HRes(FALSE, W, <<>>, NoData)
            ELSE LET idx == {i \in 1..Len(f.vamms) : W.vamm[f.vamms[i]].st.open}
                     RECURSIVE Mk(_)
                     Mk(i) == IF i > Len(f.vamms) THEN <<>>
                              ELSE (IF i \in idx
                                    THEN <<[to |-> f.vamms[i], op |-> "set_open", a |-> [open |-> FALSE],
                                            funds |-> 0, id |-> 0, on |-> "never"]>>
                                    ELSE <<>>) \o Mk(i + 1)
                 IN IF idx = {} /\ f.vamms # <<>> THEN HRes(FALSE, W, <<>>, NoData)   \* fix F2
                    ELSE HRes(TRUE, W, Mk(1), NoData)
       [] OTHER -> HRes(FALSE, W, <<>>, NoData)

PoolExec(W, from, op, a) ==
  LET p == W.fpool
      tok == IF W.eng.cfg.native THEN "collateral" ELSE "token"
  IN CASE op = "update_owner" ->
            IF from # p.owner THEN HRes(FALSE, W, <<>>, NoData)
            ELSE HRes(TRUE, [W EXCEPT !.fpool.owner = a.owner], <<>>, NoData)
       [] op = "add_token" ->
            IF from # p.owner \/ InList(p.tokens, tok) \/ Len(p.tokens) >= 3 THEN HRes(FALSE, W, <<>>, NoData)
            ELSE HRes(TRUE, [W EXCEPT !.fpool.tokens = Append(@, tok)], <<>>, NoData)
       [] op = "remove_token" ->
            IF from # p.owner \/ ~InList(p.tokens, tok) THEN HRes(FALSE, W, <<>>, NoData)
            ELSE HRes(TRUE, [W EXCEPT !.fpool.tokens = SwapRemove(@, tok)], <<>>, NoData)
       [] op = "send_token" ->
            IF a.amount = 0 \/ from # p.owner \/ ~InList(p.tokens, tok) \/ W.bal["fpool"] < a.amount
            THEN HRes(FALSE, W, <<>>, NoData)
            ELSE HRes(TRUE, W, <<[to |-> IF W.eng.cfg.native THEN "bank" ELSE "token",
                                  op |-> IF W.eng.cfg.native THEN "send" ELSE "transfer",
                                  a |-> [to |-> a.recipient, amount |-> a.amount], funds |-> 0, id |-> 0, on |-> "never"]>>, NoData)
       [] OTHER -> HRes(FALSE, W, <<>>, NoData)

FeedExec(W, from, op, a) ==
  LET f == W.feed
  IN IF f.kind = "mock"
     THEN CASE op = "append_price" -> HRes(TRUE, [W EXCEPT !.feed.price = a.price], <<>>, NoData)
            [] op = "append_multiple_price" ->   \* the mock stores only the first element (and panics on an empty batch)
                 IF a.prices = <<>> THEN HRes(FALSE, W, <<>>, NoData)
                 ELSE HRes(TRUE, [W EXCEPT !.feed.price = a.prices[1]], <<>>, NoData)
            [] op = "update_owner" -> IF from # f.owner THEN HRes(FALSE, W, <<>>, NoData)
                                      ELSE HRes(TRUE, [W EXCEPT !.feed.owner = a.owner], <<>>, NoData)
            [] OTHER -> HRes(FALSE, W, <<>>, NoData)
     ELSE CASE op = "append_price" -> IF from # f.owner THEN HRes(FALSE, W, <<>>, NoData)
                                      ELSE HRes(TRUE, [W EXCEPT !.feed = AppendRound(f, a.key, a.price, a.t)], <<>>, NoData)
            [] op = "append_multiple_price" ->
                 IF from # f.owner \/ Len(a.prices) # Len(a.ts) THEN HRes(FALSE, W, <<>>, NoData)
                 ELSE HRes(TRUE, [W EXCEPT !.feed = AppendMany(f, a.key, a.prices, a.ts, 1)], <<>>, NoData)
            [] op = "update_owner" -> IF from # f.owner THEN HRes(FALSE, W, <<>>, NoData)
                                      ELSE HRes(TRUE, [W EXCEPT !.feed.owner = a.owner], <<>>, NoData)
            [] OTHER -> HRes(FALSE, W, <<>>, NoData)

Handle(W, from, m) ==
  IF m.to = "engine"
  THEN LET r == EngineExecute(W, from, m.op, m.a, m.funds) IN [HRes(r.ok, r.W, r.msgs, NoData) EXCEPT !.err = r.err]
  ELSE IF m.to \in DOMAIN W.vamm THEN VammExec(W, m.to, from, m.op, m.a)
  ELSE IF m.to = "ifund" THEN FundExec(W, from, m.op, m.a)
  ELSE IF m.to = "fpool" THEN PoolExec(W, from, m.op, m.a)
  ELSE IF m.to = "feed" THEN FeedExec(W, from, m.op, m.a)
  ELSE HRes(FALSE, W, <<>>, NoData)

\* only the engine has a reply entry point; the fee pool's reply_on Always sub-message would fail
\* the transaction ("reply not implemented") exactly as a missing entry point does
ReplyOf(W, contract, id, subok, data) ==
  IF contract = "engine" THEN EngineReply(W, id, subok, data) ELSE Fail(W, "no_reply_entry_point")

----------------------------------------------------------------------------
RECURSIVE Exec(_, _, _, _), RunSubs(_, _, _, _)

(* one message sent by `from`; returns [ok, W, ctx, data] *)
Exec(W, from, m, ctx0) ==
  LET ctx1 == [ctx0 EXCEPT !.cnt = @ + 1]
      n == ctx1.cnt
  IN IF ctx1.fault = n
     THEN [ok |-> FALSE, W |-> W, data |-> NoData, err |-> "injected",
           ctx |-> LET c == CallM([ctx1 EXCEPT !.fired = TRUE], from, m, FALSE, TRUE)
                   IN IF m.to \in {"bank", "token"}
                      THEN [c EXCEPT !.xfers = Append(@, XferOf(W, from, m, n, FALSE))] ELSE c]
     ELSE IF m.to \in {"bank", "token"}
     THEN LET r == LedgerExec(W, from, m)
          IN [ok |-> r.ok, W |-> r.W, data |-> NoData, err |-> IF r.ok THEN "" ELSE "ledger",
              ctx |-> [CallM(ctx1, from, m, r.ok, FALSE) EXCEPT !.xfers = Append(@, XferOf(W, from, m, n, r.ok))]]
     ELSE LET h == Handle(W, from, m)
          IN IF ~h.ok THEN [ok |-> FALSE, W |-> W, data |-> NoData, err |-> h.err, ctx |-> CallM(ctx1, from, m, FALSE, FALSE)]
             ELSE LET c2 == CallM(ctx1, from, m, TRUE, FALSE)
                      c3 == IF m.op \in {"swap_input", "swap_output"}
                            THEN [c2 EXCEPT !.swaps = Append(@, [n |-> n, vamm |-> m.to,
                                       type |-> IF m.op = "swap_input" THEN "input" ELSE "output", dir |-> m.a.dir,
                                       quote |-> IF m.op = "swap_input" THEN h.data.input ELSE h.data.output,
                                       base |-> IF m.op = "swap_input" THEN h.data.output ELSE h.data.input])]
                            ELSE c2
                      s == RunSubs(h.W, m.to, h.msgs, c3)
                  IN IF s.ok THEN [ok |-> TRUE, W |-> s.W, data |-> h.data, ctx |-> s.ctx, err |-> ""]
                     ELSE [ok |-> FALSE, W |-> W, data |-> NoData, ctx |-> s.ctx, err |-> s.err]

(* the sub-messages of one response of `contract`, in order: [ok, W, ctx] *)
RunSubs(W, contract, msgs, ctx) ==
  IF msgs = <<>> THEN [ok |-> TRUE, W |-> W, ctx |-> ctx, err |-> ""]
  ELSE LET sm == Head(msgs)
           r == Exec(W, contract, sm, ctx)
       IN IF r.ok
          THEN IF sm.on = "always"
               THEN LET rp == ReplyOf(r.W, contract, sm.id, TRUE, r.data)
                        cr == ReplyCall(r.ctx, contract, sm.id, rp.ok)
                    IN IF ~rp.ok THEN [ok |-> FALSE, W |-> W, ctx |-> cr, err |-> rp.err]
                       ELSE LET s == RunSubs(rp.W, contract, rp.msgs, cr)
                            IN IF ~s.ok THEN [ok |-> FALSE, W |-> W, ctx |-> s.ctx, err |-> s.err]
                               ELSE RunSubs(s.W, contract, Tail(msgs), s.ctx)
               ELSE RunSubs(r.W, contract, Tail(msgs), r.ctx)
          ELSE IF sm.on \in {"always", "error"}
               THEN LET rp == ReplyOf(W, contract, sm.id, FALSE, NoData)
                        cr == ReplyCall(r.ctx, contract, sm.id, rp.ok)
                    IN IF ~rp.ok THEN [ok |-> FALSE, W |-> W, ctx |-> cr,
                                       err |-> IF r.err = "over" THEN "over" ELSE IF sm.id = 9 THEN "transfer_failure" ELSE "other"]
                       ELSE LET s == RunSubs(rp.W, contract, rp.msgs, cr)       \* a swallowed error
                            IN IF ~s.ok THEN [ok |-> FALSE, W |-> W, ctx |-> s.ctx, err |-> s.err]
                               ELSE RunSubs(s.W, contract, Tail(msgs), s.ctx)
               ELSE [ok |-> FALSE, W |-> W, ctx |-> r.ctx, err |-> r.err]

(***************************************************************************)
(* A whole transaction: tx = [c, m, s, a, funds], fault = call index to     *)
(* fail (0 = none).  Attached native funds move first (not a counted call). *)
(* Returns [ok, W, ctx]; on failure W is the unchanged pre-state.           *)
(***************************************************************************)
StripTmpd(W) == IF "tmpd" \in DOMAIN W.eng
                THEN [W EXCEPT !.eng = [f \in (DOMAIN W.eng) \ {"tmpd"} |-> W.eng[f]]] ELSE W

RunTx(W, tx, fault) ==
  LET funded == IF tx.funds > 0
                THEN IF W.bal[tx.s] < tx.funds THEN FAIL
                     ELSE 1
                ELSE 0
      W1 == IF funded = 1 THEN [W EXCEPT !.bal[tx.s] = @ - tx.funds, !.bal[tx.c] = @ + tx.funds] ELSE W
      m == [to |-> tx.c, op |-> tx.m, a |-> tx.a, funds |-> tx.funds, id |-> 0, on |-> "never"]
  IN IF funded = FAIL THEN [ok |-> FALSE, W |-> W, ctx |-> Ctx0(fault), err |-> "funds"]
     ELSE LET r == Exec(W1, tx.s, m, Ctx0(fault))
          IN IF r.ok THEN [ok |-> TRUE, W |-> StripTmpd(r.W), ctx |-> r.ctx, err |-> ""]
             ELSE [ok |-> FALSE, W |-> W, ctx |-> r.ctx, err |-> r.err]

AdvanceBlock(W, dh, dt) == [W EXCEPT !.blk.h = @ + dh, !.blk.t = @ + dt]
=============================================================================
