------------------------------ MODULE Registry ------------------------------
(***************************************************************************)
(* Typed sub-specification of the insurance fund's vAMM registry and the    *)
(* vAMMs' open flags (contracts/margined_insurance_fund/src/state.rs,       *)
(* handle.rs after fix F2), for Apalache: the registry part of C14 as an    *)
(* *inductive* invariant - it holds for every history, not only within the  *)
(* bounds TLC explores.                                                     *)
(***************************************************************************)
EXTENDS Integers, Sequences, Apalache

CONSTANTS
  \* @type: Set(Str);
  Vamms,
  \* @type: Set(Str);
  Accounts

VARIABLES
  \* @type: Seq(Str);
  list,
  \* @type: Str;
  owner,
  \* @type: Str -> Bool;
  open,
  \* @type: Str -> Bool;
  decimalsOK

ConstInit == Vamms = {"v1", "v2", "v3", "v4"} /\ Accounts = {"owner", "newowner", "stranger"}

InList(v) == \E i \in DOMAIN list : list[i] = v
NoDup == \A i, j \in DOMAIN list : i # j => list[i] # list[j]

TypeOK == /\ \A i \in DOMAIN list : list[i] \in Vamms
          /\ owner \in Accounts
          /\ open \in [Vamms -> BOOLEAN]
          /\ decimalsOK \in [Vamms -> BOOLEAN]

\* the invariant of C14's registry clause, strengthened to be inductive
IndInv == TypeOK /\ NoDup /\ Len(list) <= 3 /\ (\A i \in DOMAIN list : decimalsOK[list[i]])

Init == /\ list = <<>>
        /\ owner = "owner"
        /\ open \in [Vamms -> BOOLEAN]
        /\ decimalsOK \in [Vamms -> BOOLEAN]

\* any state satisfying the invariant (for the inductive step)
IndInit == /\ list = Gen(3)
           /\ owner \in Accounts
           /\ open \in [Vamms -> BOOLEAN]
           /\ decimalsOK \in [Vamms -> BOOLEAN]
           /\ IndInv

AddVamm(s, v) == /\ s = owner /\ decimalsOK[v] /\ ~InList(v) /\ Len(list) < 3
                 /\ list' = Append(list, v)
                 /\ UNCHANGED <<owner, open, decimalsOK>>

\* Vec::swap_remove
RemoveVamm(s, v) ==
  /\ s = owner /\ InList(v)
  /\ \E i \in DOMAIN list :
       /\ list[i] = v
       /\ LET n == Len(list)
              front == SubSeq(list, 1, n - 1)
          IN list' = IF i = n THEN front ELSE [front EXCEPT ![i] = list[n]]
  /\ UNCHANGED <<owner, open, decimalsOK>>

\* fix F2: only vAMMs that are still open are sent SetOpen{false}; fails when none is open
Shutdown(s) == /\ s = owner
               /\ \E i \in DOMAIN list : open[list[i]]
               /\ open' = [v \in Vamms |-> IF InList(v) THEN FALSE ELSE open[v]]
               /\ UNCHANGED <<list, owner, decimalsOK>>

SetOpen(v, b) == /\ open[v] # b /\ open' = [open EXCEPT ![v] = b] /\ UNCHANGED <<list, owner, decimalsOK>>
UpdateOwner(s, n) == s = owner /\ owner' = n /\ UNCHANGED <<list, open, decimalsOK>>

Next == \/ \E s \in Accounts, v \in Vamms : AddVamm(s, v) \/ RemoveVamm(s, v)
        \/ \E s \in Accounts : Shutdown(s)
        \/ \E v \in Vamms, b \in BOOLEAN : SetOpen(v, b)
        \/ \E s \in Accounts, n \in Accounts : UpdateOwner(s, n)
        \/ UNCHANGED <<list, owner, open, decimalsOK>>

=============================================================================
