------------------------------- MODULE BigNat -------------------------------
(***************************************************************************)
(* Natural numbers of arbitrary size as little-endian sequences of base-    *)
(* 10^4 limbs (no leading zero limb except for the number 0 = <<0>>), so    *)
(* that TLC (32-bit integers) can judge 128-bit arithmetic.  Only what the  *)
(* C19 predicates need: comparison, addition, subtraction, multiplication.  *)
(* Division is *checked* (q*b <= a < (q+1)*b), never computed.              *)
(***************************************************************************)
EXTENDS Integers, Sequences

B == 10000

RECURSIVE Norm(_)
Norm(a) == IF Len(a) > 1 /\ a[Len(a)] = 0 THEN Norm(SubSeq(a, 1, Len(a) - 1)) ELSE a

IsZero(a) == Norm(a) = <<0>>
Limb(a, i) == IF i <= Len(a) THEN a[i] ELSE 0

\* -1 / 0 / 1
RECURSIVE CmpFrom(_, _, _)
CmpFrom(a, b, i) == IF i = 0 THEN 0
                    ELSE IF Limb(a, i) < Limb(b, i) THEN -1
                    ELSE IF Limb(a, i) > Limb(b, i) THEN 1
                    ELSE CmpFrom(a, b, i - 1)
Cmp(a, b) == LET n == IF Len(a) > Len(b) THEN Len(a) ELSE Len(b) IN CmpFrom(a, b, n)
Eq(a, b) == Cmp(a, b) = 0
Lt(a, b) == Cmp(a, b) = -1
Le(a, b) == Cmp(a, b) <= 0

RECURSIVE AddFrom(_, _, _, _, _)
AddFrom(a, b, i, carry, n) ==
  IF i > n THEN (IF carry = 0 THEN <<>> ELSE <<carry>>)
  ELSE LET s == Limb(a, i) + Limb(b, i) + carry
       IN <<s % B>> \o AddFrom(a, b, i + 1, s \div B, n)
Add(a, b) == Norm(AddFrom(a, b, 1, 0, IF Len(a) > Len(b) THEN Len(a) ELSE Len(b)))

\* a - b for a >= b
RECURSIVE SubFrom(_, _, _, _)
SubFrom(a, b, i, borrow) ==
  IF i > Len(a) THEN <<>>
  ELSE LET s == Limb(a, i) - Limb(b, i) - borrow
       IN IF s < 0 THEN <<s + B>> \o SubFrom(a, b, i + 1, 1)
          ELSE <<s>> \o SubFrom(a, b, i + 1, 0)
Sub(a, b) == Norm(SubFrom(a, b, 1, 0))

\* a * d for a single limb d, shifted by k limbs
RECURSIVE MulLimbFrom(_, _, _, _)
MulLimbFrom(a, d, i, carry) ==
  IF i > Len(a) THEN (IF carry = 0 THEN <<>> ELSE <<carry>>)
  ELSE LET s == a[i] * d + carry
       IN <<s % B>> \o MulLimbFrom(a, d, i + 1, s \div B)
Zeros(k) == [i \in 1..k |-> 0]
RECURSIVE MulFrom(_, _, _)
MulFrom(a, b, j) ==
  IF j > Len(b) THEN <<0>>
  ELSE Add(Zeros(j - 1) \o MulLimbFrom(a, b[j], 1, 0), MulFrom(a, b, j + 1))
Mul(a, b) == Norm(MulFrom(a, b, 1))

One == <<1>>
\* 2^128 - 1 = 340282366920938463463374607431768211455
U128Max == <<1455, 6821, 4317, 4607, 6337, 4634, 938, 6692, 2823, 340>>
Fits(a) == Le(a, U128Max)
=============================================================================
