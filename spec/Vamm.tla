-------------------------------- MODULE Vamm --------------------------------
(***************************************************************************)
(* Mirror of contracts/margined_vamm: pricing, reserve updates, snapshots, *)
(* TWAPs, per-block price band, funding settlement.                        *)
(*                                                                         *)
(* A vAMM is a record                                                      *)
(*   [cfg   |-> [engine, ifund, feed, base, D, toll, spread, fluct, hcap,  *)
(*               oicap, twapint, period, buffer],                          *)
(*    st    |-> [open, x, y, total, rate, next],                           *)
(*    owner |-> account, snaps |-> Seq([x, y, t, h]), nsnaps |-> Nat]      *)
(* Directions are "add" (AddToAmm) and "rem" (RemoveFromAmm).              *)
(* Every operator is a pure function; FAIL mirrors a Rust error.           *)
(***************************************************************************)
EXTENDS Arith

FIFTEEN_MINUTES == 900
ONE_HOUR == 3600
ONE_DAY  == 86400
ONE_MINUTE == 60
ONE_WEEK == 604800

Flip(dir) == IF dir = "add" THEN "rem" ELSE "add"

(* handle.rs::get_input_price_with_reserves.  The invariant is the exact product x*y (fix F12: it
   used to be floor(x*y/D)*D, which let the exact product shrink inside one floor bucket). *)
InputPrice(D, dir, q, x, y) ==
  IF q = 0 THEN 0
  ELSE LET k  == x * y
           xa == IF dir = "add" THEN x + q ELSE CSub(x, q)
       IN IF Bad(xa) \/ xa = 0 THEN FAIL
          ELSE LET ya     == k \div xa
                   bought == Abs(ya - y)
                   rem    == k % xa
               IN IF rem # 0
                  THEN IF dir = "add" THEN CSub(bought, 1) ELSE bought + 1
                  ELSE bought

(* handle.rs::get_output_price_with_reserves *)
OutputPrice(D, dir, b, x, y) ==
  IF b = 0 THEN 0
  ELSE LET k  == x * y
           ya == IF dir = "add" THEN y + b ELSE CSub(y, b)
       IN IF Bad(ya) \/ ya = 0 THEN FAIL
          ELSE LET xa   == k \div ya
                   sold == Abs(xa - x)
                   rem  == k % ya
               IN IF rem # 0
                  THEN IF dir = "add" THEN CSub(sold, 1) ELSE sold + 1
                  ELSE sold

Spot(v) == CDiv(v.st.x * v.cfg.D, v.st.y)
SnapPrice(D, s) == CDiv(s.x * D, s.y)

(* query.rs::query_input_price / query_output_price *)
QInputPrice(v, dir, a) ==
  LET o == InputPrice(v.cfg.D, dir, a, v.st.x, v.st.y)
  IN IF Bad(o) THEN FAIL ELSE IF o = 0 THEN 0 ELSE (a * v.cfg.D) \div o
QOutputPrice(v, dir, a) ==
  LET o == OutputPrice(v.cfg.D, dir, a, v.st.x, v.st.y)
  IN IF Bad(o) THEN FAIL ELSE IF o = 0 THEN 0 ELSE (a * v.cfg.D) \div o

(* query.rs::query_calc_fee *)
CalcFee(v, q) == [toll   |-> IF q = 0 THEN 0 ELSE (q * v.cfg.toll) \div v.cfg.D,
                  spread |-> IF q = 0 THEN 0 ELSE (q * v.cfg.spread) \div v.cfg.D]

(***************************************************************************)
(* utils.rs::calc_twap.  `prices` is the per-snapshot price sequence       *)
(* (reserve price, or the input/output quote evaluated on each snapshot's  *)
(* reserves); only the entries the Rust loop visits are inspected.         *)
(***************************************************************************)
RECURSIVE TwapLoop(_, _, _, _, _, _, _, _)
TwapLoop(snaps, prices, i, prev, period, weighted, base, interval) ==
  IF Bad(weighted) THEN weighted
  ELSE IF i = 0 THEN CDiv(weighted, period)
  ELSE IF Bad(prices[i]) THEN prices[i]
  ELSE IF snaps[i].t <= base
       THEN LET w == SafeAdd(weighted, SafeMul(prices[i], prev - base))
            IN IF Bad(w) THEN w ELSE w \div interval
       ELSE TwapLoop(snaps, prices, i - 1, snaps[i].t, period + (prev - snaps[i].t),
                     SafeAdd(weighted, SafeMul(prices[i], prev - snaps[i].t)), base, interval)

CalcTwap(snaps, prices, now, interval) ==
  LET n   == Len(snaps)
      cur == prices[n]
  IN IF Bad(cur) THEN cur
     ELSE IF interval = 0 THEN cur
     ELSE IF now < interval THEN FAIL                       \* checked_sub(...).unwrap() panics
     ELSE LET base == now - interval
          IN IF n = 1 \/ snaps[n].t <= base THEN cur
             ELSE TwapLoop(snaps, prices, n - 1, snaps[n].t, now - snaps[n].t,
                           SafeMul(cur, now - snaps[n].t), base, interval)

ReservePrices(v) == [i \in 1..Len(v.snaps) |-> SnapPrice(v.cfg.D, v.snaps[i])]
TwapPrice(v, now, interval) == CalcTwap(v.snaps, ReservePrices(v), now, interval)

\* get_price_with_specific_snapshot(Input option): amount 0 => price 0
InputTwap(v, now, dir, a) ==
  CalcTwap(v.snaps,
           [i \in 1..Len(v.snaps) |-> IF a = 0 THEN 0
                 ELSE InputPrice(v.cfg.D, dir, a, v.snaps[i].x, v.snaps[i].y)],
           now, FIFTEEN_MINUTES)
OutputTwap(v, now, dir, a) ==
  CalcTwap(v.snaps,
           [i \in 1..Len(v.snaps) |-> IF a = 0 THEN 0
                 ELSE OutputPrice(v.cfg.D, dir, a, v.snaps[i].x, v.snaps[i].y)],
           now, FIFTEEN_MINUTES)

(* utils.rs::price_boundaries_of_last_block: <<upper, lower>> *)
PriceBounds(v, h) ==
  LET n  == Len(v.snaps)
      s  == IF v.snaps[n].h = h /\ n > 1 THEN v.snaps[n - 1] ELSE v.snaps[n]
      lp == SnapPrice(v.cfg.D, s)
  IN IF Bad(lp) \/ v.cfg.fluct > v.cfg.D THEN <<FAIL, FAIL>>
     ELSE << (lp * (v.cfg.D + v.cfg.fluct)) \div v.cfg.D,
             (lp * (v.cfg.D - v.cfg.fluct)) \div v.cfg.D >>

(* utils.rs::check_is_over_block_fluctuation_limit: "ok" | "already" | "over" | "fail" *)
CheckFluct(v, h, dir, q, b, canOver) ==
  IF v.cfg.fluct = 0 THEN "ok"
  ELSE LET bd == PriceBounds(v, h)
           cp == Spot(v)
       IN IF Bad(bd[1]) \/ Bad(cp) THEN "fail"
          ELSE IF cp > bd[1] \/ cp < bd[2] THEN "already"
          ELSE IF canOver THEN "ok"
          ELSE LET p == IF dir = "add"
                        THEN CDiv((v.st.x + q) * v.cfg.D, CSub(v.st.y, b))
                        ELSE CDiv(CSub(v.st.x, q) * v.cfg.D, v.st.y + b)
               IN IF (dir = "rem" /\ Bad(CSub(v.st.x, q))) \/ Bad(p) THEN "fail"
                  ELSE IF p > bd[1] \/ p < bd[2] THEN "over" ELSE "ok"

(* query.rs::query_is_over_fluctuation_limit: [ok, val] *)
IsOverFluct(v, h, dir, b) ==
  IF v.cfg.fluct = 0 THEN [ok |-> TRUE, val |-> FALSE]
  ELSE LET bd == PriceBounds(v, h)
           q  == OutputPrice(v.cfg.D, dir, b, v.st.x, v.st.y)
       IN IF Bad(bd[1]) \/ Bad(q) THEN [ok |-> FALSE, val |-> FALSE]
          ELSE LET p == IF dir = "rem"
                        THEN CDiv((v.st.x + q) * v.cfg.D, CSub(v.st.y, b))
                        ELSE CDiv(CSub(v.st.x, q) * v.cfg.D, v.st.y + b)
               IN IF (dir # "rem" /\ Bad(CSub(v.st.x, q))) \/ Bad(p) THEN [ok |-> FALSE, val |-> FALSE]
                  ELSE [ok |-> TRUE, val |-> ~(p <= bd[1] /\ p >= bd[2])]

(* query.rs::query_is_over_spread_limit, given the oracle's latest price: [ok, val] *)
IsOverSpread(v, oracle) ==
  IF Bad(oracle) \/ oracle = 0 THEN [ok |-> FALSE, val |-> FALSE]
  ELSE LET mp == Spot(v)
       IN IF Bad(mp) THEN [ok |-> FALSE, val |-> FALSE]
          ELSE [ok |-> TRUE, val |-> Abs(SDiv((mp - oracle) * v.cfg.D, oracle)) >= v.cfg.D \div 10]

(* utils.rs::add_reserve_snapshot *)
AddSnapshot(v, blk, x, y) ==
  LET n == Len(v.snaps)
  IN IF v.snaps[n].h = blk.h
     THEN [v EXCEPT !.snaps[n] = [@ EXCEPT !.x = x, !.y = y]]
     ELSE [v EXCEPT !.snaps = Append(@, [x |-> x, y |-> y, t |-> blk.t, h |-> blk.h]),
                    !.nsnaps = @ + 1]

(* handle.rs::update_reserve; returns [ok, v, err] *)
UpdateReserve(v, blk, dir, q, b, canOver) ==
  LET chk == CheckFluct(v, blk.h, dir, q, b, canOver)
  IN IF chk # "ok" THEN [ok |-> FALSE, v |-> v, err |-> chk]
     ELSE LET nx == IF dir = "add" THEN v.st.x + q ELSE CSub(v.st.x, q)
              ny == IF dir = "add" THEN CSub(v.st.y, b) ELSE v.st.y + b
              nt == IF dir = "add" THEN v.st.total + b ELSE v.st.total - b
          IN IF Bad(nx) \/ Bad(ny) THEN [ok |-> FALSE, v |-> v, err |-> "reserve"]
             ELSE [ok |-> TRUE, err |-> "",
                   v |-> AddSnapshot([v EXCEPT !.st.x = nx, !.st.y = ny, !.st.total = nt],
                                     blk, nx, ny)]

(* handle.rs::swap_input; returns [ok, v, q, b, err] *)
SwapInput(v, blk, sender, dir, q, limit, canOver) ==
  IF ~v.st.open THEN [ok |-> FALSE, v |-> v, q |-> 0, b |-> 0, err |-> "closed"]
  ELSE IF sender # v.cfg.engine THEN [ok |-> FALSE, v |-> v, q |-> 0, b |-> 0, err |-> "unauthorized"]
  ELSE LET b == InputPrice(v.cfg.D, dir, q, v.st.x, v.st.y)
       IN IF Bad(b) THEN [ok |-> FALSE, v |-> v, q |-> 0, b |-> 0, err |-> "price"]
          \* fix F20: the limit is compared for every amount, also an empty swap
          ELSE IF limit # 0 /\ ((dir = "add" /\ b < limit) \/ (dir = "rem" /\ b > limit))
               THEN [ok |-> FALSE, v |-> v, q |-> 0, b |-> 0, err |-> "slippage"]
          ELSE LET u == UpdateReserve(v, blk, dir, q, b, canOver)
               IN [ok |-> u.ok, v |-> u.v, q |-> q, b |-> b, err |-> u.err]

(* handle.rs::swap_output; `dir` is the message's direction (reserve update uses the flipped one) *)
SwapOutput(v, blk, sender, dir, b, limit) ==
  IF ~v.st.open THEN [ok |-> FALSE, v |-> v, q |-> 0, b |-> 0, err |-> "closed"]
  ELSE IF sender # v.cfg.engine THEN [ok |-> FALSE, v |-> v, q |-> 0, b |-> 0, err |-> "unauthorized"]
  ELSE LET q  == OutputPrice(v.cfg.D, dir, b, v.st.x, v.st.y)
           ud == Flip(dir)
       IN IF Bad(q) THEN [ok |-> FALSE, v |-> v, q |-> 0, b |-> 0, err |-> "price"]
          ELSE IF limit # 0 /\ ((ud = "rem" /\ q < limit) \/ (ud = "add" /\ q > limit))
               THEN [ok |-> FALSE, v |-> v, q |-> 0, b |-> 0, err |-> "slippage"]
          ELSE LET u == UpdateReserve(v, blk, ud, q, b, TRUE)
               IN [ok |-> u.ok, v |-> u.v, q |-> q, b |-> b, err |-> u.err]

(* handle.rs::set_open *)
SetOpen(v, blk, sender, open) ==
  IF (sender # v.owner /\ sender # v.cfg.ifund) \/ v.st.open = open
  THEN [ok |-> FALSE, v |-> v]
  ELSE [ok |-> TRUE,
        v |-> IF open
              THEN [v EXCEPT !.st.open = TRUE,
                             !.st.next = blk.t + (v.cfg.period \div ONE_HOUR) * ONE_HOUR]
              ELSE [v EXCEPT !.st.open = FALSE]]

(* handle.rs::settle_funding, given the oracle TWAP; returns [ok, v, frac, err] *)
SettleFunding(v, blk, sender, underlying) ==
  IF ~v.st.open THEN [ok |-> FALSE, v |-> v, frac |-> 0, err |-> "closed"]
  ELSE IF sender # v.cfg.engine THEN [ok |-> FALSE, v |-> v, frac |-> 0, err |-> "unauthorized"]
  ELSE IF blk.t < v.st.next THEN [ok |-> FALSE, v |-> v, frac |-> 0, err |-> "too_early"]
  ELSE LET index == TwapPrice(v, blk.t, v.cfg.twapint)
       IN IF Bad(underlying) \/ Bad(index) \/ underlying = 0
          THEN [ok |-> FALSE, v |-> v, frac |-> 0, err |-> "twap"]
          ELSE LET premium == index - underlying
                   frac    == SDiv(premium * v.cfg.period, ONE_DAY)
                   rate    == SDiv(frac * v.cfg.D, underlying)
                   hourly  == ((blk.t + v.cfg.period) \div ONE_HOUR) * ONE_HOUR
                   minnext == blk.t + v.cfg.buffer
               IN [ok |-> TRUE, frac |-> frac, err |-> "",
                   v |-> [v EXCEPT !.st.rate = rate,
                                   !.st.next = IF hourly > minnext THEN hourly ELSE minnext]]
=============================================================================
