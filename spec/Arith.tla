------------------------------- MODULE Arith -------------------------------
(***************************************************************************)
(* Integer helpers shared by every module of the mirror specification.     *)
(* The contracts compute on Uint128 (unsigned, checked) and on a           *)
(* sign-magnitude `Integer` whose division truncates toward zero.  TLA+'s   *)
(* \div floors, so signed division goes through SDiv.                       *)
(* FAIL is the result of a checked operation that the Rust code would       *)
(* reject (underflow, division by zero); all genuine Uint128 results are    *)
(* >= 0 so -1 cannot be confused with a value.                              *)
(***************************************************************************)
EXTENDS Integers, Sequences

FAIL == -1
\* OVER: the value exists in the implementation (128-bit) but TLC's 32-bit integers cannot hold an
\* intermediate of its computation; every consumer treats it like FAIL ("no usable oracle value").
OVER == -2
MaxInt == 2147483647
Bad(x) == x < 0
SafeMul(a, b) == IF a < 0 \/ b < 0 THEN FAIL
                 ELSE IF a # 0 /\ b # 0 /\ a > MaxInt \div b THEN OVER ELSE a * b
SafeAdd(a, b) == IF a < 0 THEN a ELSE IF b < 0 THEN b
                 ELSE IF a > MaxInt - b THEN OVER ELSE a + b

\* signed product representable in TLC's integers
\* (IF, not \/: inside an action TLC evaluates every disjunct)
MulOK(a, b) == IF a = 0 \/ b = 0 THEN TRUE ELSE (IF a < 0 THEN -a ELSE a) <= MaxInt \div (IF b < 0 THEN -b ELSE b)
\* amounts above this are outside what the specification judges (20 000.00 units at D = 100)
AmtCap == 2000000

Min(a, b) == IF a < b THEN a ELSE b
Max(a, b) == IF a > b THEN a ELSE b
Abs(a)    == IF a < 0 THEN -a ELSE a
Sgn(a)    == IF a < 0 THEN -1 ELSE IF a > 0 THEN 1 ELSE 0

\* Integer::div / checked_div: sign of the quotient, magnitude floor(|a| / |b|)
SDiv(a, b) == IF (a < 0) = (b < 0) THEN Abs(a) \div Abs(b) ELSE -(Abs(a) \div Abs(b))

\* Uint128::checked_sub
CSub(a, b) == IF a = FAIL \/ b = FAIL \/ a < b THEN FAIL ELSE a - b
\* Uint128::checked_div
CDiv(a, b) == IF a = FAIL \/ b = FAIL \/ b = 0 THEN FAIL ELSE a \div b

\* floor(a * b / c) as the contracts compute it (checked_mul then checked_div)
MulDiv(a, b, c) == CDiv(a * b, c)

RECURSIVE SumSeq(_)
SumSeq(s) == IF s = <<>> THEN 0 ELSE Head(s) + SumSeq(Tail(s))

RECURSIVE SeqMin(_)
SeqMin(s) == IF Len(s) = 1 THEN s[1] ELSE Min(Head(s), SeqMin(Tail(s)))
RECURSIVE SeqMax(_)
SeqMax(s) == IF Len(s) = 1 THEN s[1] ELSE Max(Head(s), SeqMax(Tail(s)))

Last(s) == s[Len(s)]
=============================================================================
