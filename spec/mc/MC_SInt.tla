------------------------------ MODULE MC_SInt ------------------------------
(* C19: exhaustive check of the transcription SIntT against the mathematical integers *)
EXTENDS SIntT
----------------------------------------------------------------------------
(* exhaustive check over all operand pairs: one TLC initial state per pair *)
VARIABLES a, b
Dom == {Mk(n, v) : n \in BOOLEAN, v \in 0..MAXV}
TInit == a \in Dom /\ b \in Dom
TNext == UNCHANGED <<a, b>>
TSpecT == TInit /\ [][TNext]_<<a, b>>

Canon(r) == r.neg => r.v # 0
Fits(m) == m <= MAXV /\ m >= -MAXV
Sign(x) == IF x < 0 THEN -1 ELSE IF x > 0 THEN 1 ELSE 0
TruncDiv(x, y) == Sign(x) * Sign(y) * ((IF x < 0 THEN -x ELSE x) \div (IF y < 0 THEN -y ELSE y))

OpOK(ch, un, m) ==
  /\ ch.ok = Fits(m)
  /\ ch.ok => (Val(ch.val) = m /\ Canon(ch.val))
  /\ Fits(m) => (un.ok /\ Val(un.val) = m /\ Canon(un.val) /\ EqI(un.val, ch.val))

AddOK == OpOK(CheckedAdd(a, b), Add(a, b), Val(a) + Val(b))
SubOK == OpOK(CheckedSub(a, b), Sub(a, b), Val(a) - Val(b))
MulOK == OpOK(CheckedMul(a, b), Mul(a, b), Val(a) * Val(b))
DivOK == IF b.v = 0 THEN ~CheckedDiv(a, b).ok
         ELSE OpOK(CheckedDiv(a, b), Div(a, b), TruncDiv(Val(a), Val(b)))
NegOK == Val(Invert(a)) = -Val(a) /\ Canon(Invert(a))
AbsOK == Val(AbsI(a)) = (IF Val(a) < 0 THEN -Val(a) ELSE Val(a))
CmpOK == /\ EqI(a, b) = (Val(a) = Val(b))
         /\ CmpI(a, b) = Sign(Val(a) - Val(b))
         /\ IsNegative(a) = (Val(a) < 0) /\ IsPositive(a) = (Val(a) >= 0) /\ IsZeroI(a) = (Val(a) = 0)
StrOK == /\ Display(a).minus = (Val(a) < 0)
         /\ EqI(Parse(Display(a)), a)
AllOK == AddOK /\ SubOK /\ MulOK /\ DivOK /\ NegOK /\ AbsOK /\ CmpOK /\ StrOK
=============================================================================
