SPECIFICATION Spec
CONSTANTS
 InitW <- MC_InitW
 TxAlphabet <- MC_Tx
 Gaps <- MC_Gaps
 Faults <- MC_Faults
 Known <- MC_Known
 MaxDepth = 5
 Only = "C03"
 Export = TRUE
VIEW View
PROPERTY StepOK
INVARIANT ExportInv
CHECK_DEADLOCK FALSE
