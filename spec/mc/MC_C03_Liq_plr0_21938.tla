---- MODULE MC_C03_Liq_plr0_21938 ----
EXTENDS System
MC_InitW == [allow |-> [drv |-> 0, liq |-> 1000000000, newowner |-> 0, owner |-> 0, pauser |-> 0, sfx |-> 1000000000, stranger |-> 0, tr1 |-> 1000000000, tr2 |-> 1000000000, tr3 |-> 1000000000], bal |-> [drv |-> 0, engine |-> 0, feed |-> 0, fpool |-> 0, ifund |-> 500000, liq |-> 500000, newowner |-> 0, owner |-> 0, pauser |-> 0, sfx |-> 500000, stranger |-> 0, token |-> 0, tr1 |-> 500000, tr2 |-> 500000, tr3 |-> 500000, vamm1 |-> 0, vamm2 |-> 0, vamm3 |-> 0, vamm4 |-> 0], blk |-> [h |-> 1000, t |-> 100000], eng |-> [cfg |-> [D |-> 100, fpool |-> "fpool", ifund |-> "ifund", imr |-> 5, liqfee |-> 5, mmr |-> 5, native |-> FALSE, owner |-> "owner", plr |-> 0], npos |-> 0, pauser |-> "owner", pos |-> [vamm1 |-> [liq |-> [blk |-> 0, dir |-> "add", exists |-> FALSE, lupf |-> 0, margin |-> 0, notional |-> 0, size |-> 0], tr1 |-> [blk |-> 0, dir |-> "add", exists |-> FALSE, lupf |-> 0, margin |-> 0, notional |-> 0, size |-> 0], tr2 |-> [blk |-> 0, dir |-> "add", exists |-> FALSE, lupf |-> 0, margin |-> 0, notional |-> 0, size |-> 0], tr3 |-> [blk |-> 0, dir |-> "add", exists |-> FALSE, lupf |-> 0, margin |-> 0, notional |-> 0, size |-> 0]]], pos_extra |-> <<>>, st |-> [bad_debt |-> 0, oi |-> 0, paused |-> FALSE], tmp |-> [funds |-> FALSE, liq |-> FALSE, swap |-> FALSE], vmap |-> [vamm1 |-> [cpf |-> <<>>, restr |-> 0]], whitelist |-> <<>>], feed |-> [kind |-> "mock", owner |-> "owner", price |-> 1000, rounds |-> [ADA |-> <<>>, BTC |-> <<>>, ETH |-> <<>>, SOL |-> <<>>]], fpool |-> [owner |-> "owner", tokens |-> <<"token">>], ifund |-> [engine |-> "engine", has_list |-> TRUE, owner |-> "owner", vamms |-> <<"vamm1">>], vamm |-> [vamm1 |-> [cfg |-> [D |-> 100, base |-> "ETH", buffer |-> 1800, engine |-> "engine", feed |-> "feed", fluct |-> 0, hcap |-> 0, ifund |-> "ifund", oicap |-> 0, period |-> 3600, spread |-> 0, toll |-> 0, twapint |-> 3600], nsnaps |-> 1, owner |-> "owner", snaps |-> <<[h |-> 1000, t |-> 100000, x |-> 100000, y |-> 10000]>>, st |-> [next |-> 103600, open |-> TRUE, rate |-> 0, total |-> 0, x |-> 100000, y |-> 10000]]]]
MC_Tx == {[c |-> "engine", m |-> "open_position", s |-> "tr1", a |-> [vamm |-> "vamm1", side |-> "buy", margin |-> 2500, leverage |-> 1000, limit |-> 0], funds |-> 0],
  [c |-> "engine", m |-> "open_position", s |-> "tr2", a |-> [vamm |-> "vamm1", side |-> "sell", margin |-> 450, leverage |-> 1000, limit |-> 0], funds |-> 0],
  [c |-> "engine", m |-> "open_position", s |-> "tr2", a |-> [vamm |-> "vamm1", side |-> "sell", margin |-> 520, leverage |-> 1000, limit |-> 0], funds |-> 0],
  [c |-> "engine", m |-> "open_position", s |-> "tr2", a |-> [vamm |-> "vamm1", side |-> "sell", margin |-> 3000, leverage |-> 1000, limit |-> 0], funds |-> 0],
  [c |-> "engine", m |-> "open_position", s |-> "tr3", a |-> [vamm |-> "vamm1", side |-> "buy", margin |-> 300, leverage |-> 1000, limit |-> 0], funds |-> 0],
  [c |-> "engine", m |-> "open_position", s |-> "tr3", a |-> [vamm |-> "vamm1", side |-> "sell", margin |-> 100, leverage |-> 1000, limit |-> 0], funds |-> 0],
  [c |-> "engine", m |-> "liquidate", s |-> "liq", a |-> [vamm |-> "vamm1", trader |-> "tr1", limit |-> 0], funds |-> 0],
  [c |-> "engine", m |-> "liquidate", s |-> "tr3", a |-> [vamm |-> "vamm1", trader |-> "tr1", limit |-> 0], funds |-> 0],
  [c |-> "engine", m |-> "liquidate", s |-> "liq", a |-> [vamm |-> "vamm1", trader |-> "tr2", limit |-> 0], funds |-> 0],
  [c |-> "engine", m |-> "close_position", s |-> "tr1", a |-> [vamm |-> "vamm1", limit |-> 0], funds |-> 0],
  [c |-> "engine", m |-> "close_position", s |-> "tr2", a |-> [vamm |-> "vamm1", limit |-> 0], funds |-> 0],
  [c |-> "engine", m |-> "close_position", s |-> "tr3", a |-> [vamm |-> "vamm1", limit |-> 0], funds |-> 0],
  [c |-> "feed", m |-> "append_price", s |-> "owner", a |-> [key |-> "ETH", price |-> 800, t |-> 100000], funds |-> 0]}
MC_Gaps == {15, 901}
MC_Faults == {0}
MC_Known == {"F11", "F3", "F5", "F6"}
====
