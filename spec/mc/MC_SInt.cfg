SPECIFICATION TSpecT
CONSTANT MAXV = 9
INVARIANTS AddOK SubOK MulOK DivOK NegOK AbsOK CmpOK StrOK
CHECK_DEADLOCK FALSE
