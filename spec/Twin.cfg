SPECIFICATION TSpec
POSTCONDITION TAccepted
CHECK_DEADLOCK FALSE
