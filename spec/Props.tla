-------------------------------- MODULE Props --------------------------------
(***************************************************************************)
(* The listed properties C01..C20 (C13 and C19 have their own modules) as   *)
(* step predicates over (S, e, T):                                          *)
(*    S  the abstract state before the step,                                *)
(*    e  the step (transaction / block advance / query) with its observed   *)
(*       result, sub-calls, collateral transfers and swaps,                 *)
(*    T  the abstract state after the step.                                 *)
(* The same predicates are used by the bounded models (System.tla, where e  *)
(* is what the mirror specification computes) and by trace validation       *)
(* (Trace.tla, where S, e, T are recorded from the real contracts).         *)
(* Each V_Cxx returns the set of violated clause tags (empty = holds);      *)
(* each A_Cxx returns the antecedents that were exercised (vacuity control).*)
(* aux carries the history-dependent ghosts (see Trace.tla / System.tla).   *)
(***************************************************************************)
EXTENDS Vm, FiniteSets

Traders == {"tr1", "tr2", "tr3", "liq"}
Vs(W) == DOMAIN W.vamm
IsTx(e) == e.kind = "tx"
Op(e, c, m) == e.kind = "tx" /\ e.tx.c = c /\ e.tx.m = m
EngOp(e, m) == Op(e, "engine", m)
IsVammName(c) == c \in {"vamm1", "vamm2", "vamm3", "vamm4"}
Unchanged(e) == e.dpre = e.dpost
Tag(b, t) == IF b THEN {} ELSE {t}          \* clause b must hold, else tag t

RECURSIVE SumOver(_, _)
SumOver(f, dom) == IF dom = {} THEN 0
                   ELSE LET a == CHOOSE a \in dom : TRUE IN f[a] + SumOver(f, dom \ {a})

\* collateral transfers that executed in this step
OkX(e) == {i \in 1..Len(e.xfers) : e.xfers[i].ok}
Sent(e, from, to) ==
  LET idx == {i \in OkX(e) : e.xfers[i].from = from /\ e.xfers[i].to = to}
  IN SumOver([i \in idx |-> e.xfers[i].amt], idx)
SentTo(e, to) ==
  LET idx == {i \in OkX(e) : e.xfers[i].to = to}
  IN SumOver([i \in idx |-> e.xfers[i].amt], idx)
SentFrom(e, from) ==
  LET idx == {i \in OkX(e) : e.xfers[i].from = from}
  IN SumOver([i \in idx |-> e.xfers[i].amt], idx)

K(v) == (v.st.x * v.st.y) \div v.cfg.D

\* TLC integers are 32-bit: a state whose reserves cannot be multiplied is outside what the
\* specification can judge (no verdict is given there; the drivers keep histories inside it)
SafeVamm(v) == /\ v.st.x >= 1 /\ v.st.y >= 1 /\ v.st.x <= 5000000 /\ v.st.y <= 5000000
               /\ v.st.x <= MaxInt \div v.st.y
               /\ \A i \in 1..Len(v.snaps) : v.snaps[i].x <= 5000000 /\ v.snaps[i].y <= 5000000
\* ... and so is a state holding a position whose amounts or funding product leave that range
SafePos(W, v, p) == /\ Abs(p.size) <= 5000000 /\ p.notional <= AmtCap /\ p.margin <= 5000000
                    /\ MulOK(Cpf(W, v) - p.lupf, p.size)
                    /\ p.size # 0 => LET n == OutputPrice(W.vamm[v].cfg.D, p.dir, Abs(p.size), W.vamm[v].st.x, W.vamm[v].st.y)
                                     IN n # OVER /\ n <= AmtCap
SafeWorld(W) == /\ \A v \in DOMAIN W.vamm : SafeVamm(W.vamm[v])
                /\ \A v \in DOMAIN W.eng.pos : \A t \in DOMAIN W.eng.pos[v] :
                      W.eng.pos[v][t].exists => SafePos(W, v, W.eng.pos[v][t])
PosOf(W, v, t) == W.eng.pos[v][t]
Held(p) == p.exists /\ p.size # 0

\* The reserve snapshots the TWAP oracles read are a GHOST too: the list the specification's own
\* AddSnapshot rule (one per block, overwritten within the block, holding the block's final reserves)
\* produces from the recorded reserves of every successful transaction that swapped -- not the list the
\* implementation stored.  A defect that drops, overwrites or mis-stamps a stored snapshot then shows
\* up as a difference between what the code does with its TWAPs and what the oracle computes.
GSnapsNext(g, S, e, T) ==
  [v \in Vs(T) |->
     IF v \in DOMAIN g /\ e.kind = "tx" /\ e.res.ok /\ (\E i \in 1..Len(e.swaps) : e.swaps[i].vamm = v)
     THEN LET n == Len(g[v])
          IN IF g[v][n].h = S.blk.h
             THEN [g[v] EXCEPT ![n] = [@ EXCEPT !.x = T.vamm[v].st.x, !.y = T.vamm[v].st.y]]
             ELSE Append(g[v], [x |-> T.vamm[v].st.x, y |-> T.vamm[v].st.y, t |-> S.blk.t, h |-> S.blk.h])
     ELSE IF v \in DOMAIN g THEN g[v] ELSE T.vamm[v].snaps]
GW(g, W) == [W EXCEPT !.vamm = [v \in DOMAIN W.vamm |-> IF v \in DOMAIN g THEN [W.vamm[v] EXCEPT !.snaps = g[v]] ELSE W.vamm[v]]]

EngineVamm(W, v) == W.vamm[v].cfg.engine = "engine"

\* Funding owed on a position according to the HISTORY: (current cumulative fraction - the fraction at
\* the last time the position was charged) x size.  aux.chk is a ghost: it moves to the current
\* fraction whenever the owner trades on / withdraws from / partially closes the position (the events
\* the property lists), independently of the checkpoint the implementation stores.
OwedG(aux, S, v, t, p) ==
  IF v \in DOMAIN aux.chk /\ t \in DOMAIN aux.chk[v]
  THEN SDiv((Cpf(S, v) - aux.chk[v][t]) * p.size, S.eng.cfg.D)
  ELSE FundingOwed(S, v, p)
RemainMarginG(aux, S, v, t, p, delta) ==
  LET f == OwedG(aux, S, v, t, p)
      rm == delta - f + p.margin
  IN [funding |-> f, margin |-> IF rm < 0 THEN 0 ELSE rm, bad |-> IF rm < 0 THEN -rm ELSE 0]

----------------------------------------------------------------------------
(* C01 -- vAMM curve conservation *)
V_C01(S, e, T, aux) ==
  UNION { Tag(K(T.vamm[v]) >= K(S.vamm[v]), "C01.kmono")
          \cup Tag(T.vamm[v].st.y + T.vamm[v].st.total = aux.y0[v], "C01.base")
          \cup Tag(\A p \in aux.seen[v] : p[1] = T.vamm[v].st.total => T.vamm[v].st.x >= p[2],
                   "C01.return")
        : v \in Vs(T) }
A_C01(S, e, T, aux) ==
  IF e.kind # "tx" \/ e.swaps = <<>> THEN {}
  ELSE {"swap"} \cup UNION { (IF (S.vamm[v].st.x * S.vamm[v].st.y) % S.vamm[v].cfg.D # 0
                                 \/ K(T.vamm[v]) > K(S.vamm[v]) THEN {"remainder"} ELSE {})
                              \cup (IF \E p \in aux.seen[v] : p[1] = T.vamm[v].st.total
                                    THEN {"return"} ELSE {})
                            : v \in Vs(T) }

(* C02 -- engine positions mirror the vAMM's net position *)
ExtraSize(W, v) ==
  LET idx == {i \in 1..Len(W.eng.pos_extra) : W.eng.pos_extra[i].vamm = v}
  IN SumOver([i \in idx |-> W.eng.pos_extra[i].pos.size], idx)
V_C02(S, e, T, aux) ==
  UNION { IF EngineVamm(T, v) /\ EngineVamm(S, v)
          THEN Tag(SumOver([t \in Traders |-> T.eng.pos[v][t].size], Traders) + ExtraSize(T, v)
                   = T.vamm[v].st.total, "C02.sum")
          ELSE {}
        : v \in Vs(T) }
A_C02(S, e, T, aux) ==
  IF e.kind = "tx" /\ e.tx.c = "engine" /\ e.res.ok
  THEN {e.tx.m} \cup (IF e.tx.m = "liquidate" /\ PosOf(T, e.tx.a.vamm, e.tx.a.trader).exists
                      THEN {"partial_liquidation"} ELSE {})
       \cup (IF e.tx.m = "open_position" /\ Len(e.swaps) = 2 THEN {"reversal"} ELSE {})
  ELSE IF e.kind = "tx" /\ e.tx.c = "engine" THEN {"failed"} ELSE {}

(* C03 -- collateral conservation and permitted recipients *)
Accounts(W) == DOMAIN W.bal
TotalBal(W) == SumOver(W.bal, Accounts(W))
V_C03(S, e, T, aux) ==
  IF e.kind # "tx" THEN Tag(T.bal = S.bal, "C03.nontx")
  ELSE Tag(TotalBal(T) = TotalBal(S), "C03.total")
       \cup (IF e.tx.c \in {"engine", "ifund"} \/ IsVammName(e.tx.c)
                \/ (e.tx.c = "fpool" /\ e.tx.m # "send_token")
             THEN LET allowed == {e.tx.s, "engine", "ifund", "fpool", S.eng.cfg.ifund, S.eng.cfg.fpool}
                  IN Tag(\A a \in Accounts(T) \ allowed : T.bal[a] = S.bal[a], "C03.frame")
                     \cup Tag(~e.res.ok \/ \A i \in OkX(e) :
                                 {e.xfers[i].from, e.xfers[i].to} \subseteq allowed, "C03.path")
             ELSE {})
       \cup (IF e.tx.c = "fpool" /\ e.tx.m = "send_token"
             THEN Tag(\A a \in Accounts(T) \ {e.tx.s, "fpool", e.tx.a.recipient} :
                         T.bal[a] = S.bal[a], "C03.frame")
             ELSE {})
       \cup (IF EngOp(e, "liquidate") /\ e.tx.a.trader # e.tx.s /\ e.tx.a.trader \in Accounts(T)
             THEN Tag(T.bal[e.tx.a.trader] = S.bal[e.tx.a.trader]
                      /\ \A i \in OkX(e) : e.xfers[i].to # e.tx.a.trader, "C03.liquidated")
             ELSE {})
A_C03(S, e, T, aux) ==
  IF e.kind = "tx" /\ e.res.ok /\ e.xfers # <<>>
  THEN {"moved", IF S.eng.cfg.native THEN "native" ELSE "cw20"}
       \cup (IF EngOp(e, "liquidate") THEN {"liquidation"} ELSE {})
       \cup (IF T.bal["fpool"] # S.bal["fpool"] THEN {"fee"} ELSE {})
  ELSE {}

(* C04 -- closing pays exactly the equity; bad debt cannot be cashed out *)
SwapQuote(e) == e.swaps[1].quote
SwapBase(e)  == e.swaps[1].base
ClosePnl(p, q) == IF p.dir = "add" THEN q - p.notional ELSE p.notional - q
V_C04(S, e, T, aux) ==
  (IF EngOp(e, "close_position") /\ e.res.ok /\ Held(PosOf(S, e.tx.a.vamm, e.tx.s))
   THEN LET v == e.tx.a.vamm
            t == e.tx.s
            p == PosOf(S, v, t)
        IN IF ~PosOf(T, v, t).exists
           THEN LET equity == p.margin + ClosePnl(p, SwapQuote(e)) - OwedG(aux, S, v, t, p)
                IN Tag(equity >= 0, "C04.baddebt_close")
                   \cup Tag(equity < 0 \/ Sent(e, "engine", t) = equity, "C04.payout")
           ELSE LET upnl     == PnL(S, v, p, "spot")
                    realized == SDiv(upnl.pnl * SwapBase(e), Abs(p.size))
                IN Tag(~upnl.ok \/ p.margin + realized - OwedG(aux, S, v, t, p) >= 0,
                       "C04.baddebt_partial")
   ELSE {})
  \cup
  \* an opposite OpenPosition that closes the whole position and opens nothing (the remainder is
  \* dropped) is a whole close: same payout, same bad-debt rule
  (IF EngOp(e, "open_position") /\ e.res.ok /\ e.tx.a.vamm \in Vs(S) /\ e.tx.s \in Traders
      /\ Held(PosOf(S, e.tx.a.vamm, e.tx.s)) /\ ~Held(PosOf(T, e.tx.a.vamm, e.tx.s))
      /\ Len(e.swaps) = 1 /\ e.swaps[1].type = "output"
   THEN LET v == e.tx.a.vamm
            t == e.tx.s
            p == PosOf(S, v, t)
            equity == p.margin + ClosePnl(p, SwapQuote(e)) - OwedG(aux, S, v, t, p)
        IN Tag(equity >= 0, "C04.baddebt_reverse_close")
           \cup Tag(equity < 0 \/ Sent(e, "engine", t) = equity, "C04.payout_reverse_close")
   ELSE {})
  \cup
  (IF e.kind = "tx" /\ e.tx.c = "engine"
      /\ e.tx.m \in {"open_position", "close_position", "deposit_margin", "withdraw_margin"}
   THEN Tag(S.bal["ifund"] - T.bal["ifund"] <= Max(0, T.eng.st.bad_debt - S.eng.st.bad_debt),
            "C04.ifund")
   ELSE {})
A_C04(S, e, T, aux) ==
  IF EngOp(e, "close_position") /\ e.res.ok /\ Held(PosOf(S, e.tx.a.vamm, e.tx.s))
  THEN LET p == PosOf(S, e.tx.a.vamm, e.tx.s)
       IN (IF PosOf(T, e.tx.a.vamm, e.tx.s).exists THEN {"partial_close"} ELSE {"whole_close"})
          \cup (IF FundingOwed(S, e.tx.a.vamm, p) # 0 THEN {"with_funding"} ELSE {})
          \cup (IF ClosePnl(p, SwapQuote(e)) < 0 THEN {"loss"} ELSE {"profit"})
          \cup (IF T.eng.st.bad_debt # S.eng.st.bad_debt THEN {"shortfall"} ELSE {})
  ELSE IF EngOp(e, "close_position") /\ e.res.err = "bad_debt" THEN {"rejected_bad_debt"}
  ELSE IF EngOp(e, "open_position") /\ e.res.ok /\ e.tx.a.vamm \in Vs(S) /\ e.tx.s \in Traders
          /\ Held(PosOf(S, e.tx.a.vamm, e.tx.s)) /\ ~Held(PosOf(T, e.tx.a.vamm, e.tx.s))
          /\ Len(e.swaps) = 1 /\ e.swaps[1].type = "output" THEN {"reverse_close"}
  ELSE {}

(* C05 -- trader actions never leave the trader under-margined *)
V_C05(S, e, T, aux) ==
  (IF EngOp(e, "open_position")
   THEN LET v == e.tx.a.vamm
            t == e.tx.s
            lev == e.tx.a.leverage
            D == S.eng.cfg.D
        IN Tag(~e.res.ok \/ ~(lev < D \/ lev * S.eng.cfg.imr > D * D), "C05.leverage")
           \cup (IF e.res.ok /\ v \in Vs(T) /\ t \in Traders /\ Held(PosOf(T, v, t))
                 THEN LET mr == MarginRatio(T, v, t)
                      IN Tag(~mr.ok \/ mr.val >= T.eng.cfg.mmr, "C05.mmr")
                 ELSE {})
   ELSE {})
  \cup
  (IF EngOp(e, "withdraw_margin") /\ e.tx.a.vamm \in Vs(S) /\ e.tx.s \in Traders
   THEN LET v == e.tx.a.vamm
            t == e.tx.s
            p == PosOf(S, v, t)
            a == e.tx.a.amount
            f == OwedG(aux, S, v, t, p)
        IN IF e.res.ok
           THEN LET fc == FreeCollateral(T, v, t)
                IN Tag(~fc.ok \/ fc.val >= 0, "C05.freecoll")
                   \* (coins the sender chose to attach to the call are not part of what the wallet "receives")
                   \cup Tag(T.bal[t] = S.bal[t] + a - e.tx.funds, "C05.wallet")
                   \cup Tag(PosOf(T, v, t).margin = p.margin - a - f, "C05.margin")
           ELSE {}
   ELSE {})
  \cup
  (IF EngOp(e, "withdraw_margin") /\ e.res.ok /\ e.tx.a.vamm \in Vs(S) /\ e.tx.s \in Traders
   THEN LET p == PosOf(S, e.tx.a.vamm, e.tx.s)
        IN Tag(p.margin - e.tx.a.amount - OwedG(aux, S, e.tx.a.vamm, e.tx.s, p) >= 0, "C05.baddebt")
   ELSE {})
  \cup
  (IF EngOp(e, "deposit_margin") /\ e.res.ok /\ e.tx.a.vamm \in Vs(S) /\ e.tx.s \in Traders
   THEN LET v == e.tx.a.vamm
            t == e.tx.s
        IN Tag(PosOf(T, v, t).margin = PosOf(S, v, t).margin + e.tx.a.amount
               /\ T.bal[t] = S.bal[t] - e.tx.a.amount, "C05.deposit")
   ELSE {})
A_C05(S, e, T, aux) ==
  IF EngOp(e, "open_position") /\ e.res.ok THEN
       {"open_ok"} \cup (IF Len(e.swaps) = 2 THEN {"reversal"} ELSE {})
       \cup (IF Held(PosOf(S, e.tx.a.vamm, e.tx.s)) THEN {"existing"} ELSE {"fresh"})
  ELSE IF EngOp(e, "open_position") /\ e.res.err \in {"undercollateralized", "leverage"} THEN {"open_rejected"}
  ELSE IF EngOp(e, "withdraw_margin") /\ e.res.ok THEN {"withdraw_ok"}
  ELSE IF EngOp(e, "withdraw_margin") /\ e.res.err \in {"bad_debt", "insufficient_collateral"} THEN {"withdraw_rejected"}
  ELSE IF EngOp(e, "deposit_margin") /\ e.res.ok THEN {"deposit_ok"}
  ELSE {}

(* C06 -- liquidation only of under-margined positions, exact payouts *)
LiqFee(W, q) == ((q * W.eng.cfg.liqfee) \div W.eng.cfg.D) \div 2
V_C06(S, e, T, aux) ==
  IF EngOp(e, "liquidate") /\ e.res.ok /\ e.tx.a.vamm \in Vs(S) /\ e.tx.a.trader \in Traders
  THEN LET v == e.tx.a.vamm
           t == e.tx.a.trader
           by == e.tx.s
           p == PosOf(S, v, t)
           lr == LiqRatio(S, v, t)
           q == SwapQuote(e)
           fee == LiqFee(S, q)
       IN Tag(~lr.ok \/ lr.val <= S.eng.cfg.mmr, "C06.onlyif")
          \cup Tag(Held(p), "C06.nopos")
          \cup (IF ~PosOf(T, v, t).exists
                THEN LET rm == RemainMarginG(aux, S, v, t, p, ClosePnl(p, q))
                         rest == IF fee > rm.margin THEN 0 ELSE rm.margin - fee
                     IN Tag(Sent(e, "engine", by) = fee, "C06.liqfee")
                        \cup Tag(Sent(e, "engine", "ifund") = rest, "C06.remaining")
                        \cup Tag(by = t \/ (SentTo(e, t) = 0 /\ T.bal[t] = S.bal[t]), "C06.trader")
                ELSE LET chunk == (Abs(p.size) * S.eng.cfg.plr) \div S.eng.cfg.D
                         p2 == PosOf(T, v, t)
                     IN Tag(Abs(p2.size) = Abs(p.size) - chunk, "C06.partial_size")
                        \cup Tag(Sgn(p2.size) = Sgn(p.size) \/ p2.size = 0, "C06.flip")
                        \cup Tag(Sent(e, "engine", by) = fee /\ Sent(e, "engine", "ifund") = fee,
                                 "C06.partial_fee")
                        \cup Tag(by = t \/ (SentTo(e, t) = 0 /\ T.bal[t] = S.bal[t]), "C06.trader"))
  ELSE {}
A_C06(S, e, T, aux) ==
  IF EngOp(e, "liquidate") /\ e.res.ok /\ e.tx.a.vamm \in Vs(S) /\ e.tx.a.trader \in Traders
  THEN (IF PosOf(T, e.tx.a.vamm, e.tx.a.trader).exists THEN {"partial"} ELSE {"full"})
       \cup (IF LiqRatio(S, e.tx.a.vamm, e.tx.a.trader).oracle THEN {"oracle_ratio"} ELSE {})
       \cup (IF T.eng.st.bad_debt # S.eng.st.bad_debt \/ S.bal["ifund"] > T.bal["ifund"] THEN {"bad_debt"} ELSE {})
  ELSE IF EngOp(e, "liquidate") /\ e.res.err = "overcollateralized" THEN {"rejected_healthy"}
  ELSE {}

(* C07 -- under-margined positions can always be liquidated.  Enabled is a  *)
(* deliberately *small* antecedent (every condition the statement lists,    *)
(* read generously), so the predicate cannot raise a false alarm.           *)
LiqEnabled(S, e) ==
  LET v == e.tx.a.vamm
      t == e.tx.a.trader
  IN /\ v \in Vs(S) /\ t \in Traders
     /\ e.fault = 0 /\ e.tx.a.limit = 0
     /\ LET p  == PosOf(S, v, t)
            vm == S.vamm[v]
            lr == LiqRatio(S, v, t)
        IN /\ Held(p)
           /\ lr.ok /\ lr.val < S.eng.cfg.mmr
           /\ vm.st.open /\ IsRegistered(S, v) /\ EngineVamm(S, v)
           /\ S.eng.cfg.ifund = "ifund" /\ vm.cfg.D = S.eng.cfg.D
           /\ S.eng.cfg.liqfee # 0
           /\ CheckFluct(vm, S.blk.h, "add", 0, 0, TRUE) = "ok"
           /\ LET q == OutputPrice(vm.cfg.D, p.dir, Abs(p.size), vm.st.x, vm.st.y)
              IN /\ ~Bad(q) /\ q > 0
                 /\ q < vm.st.x \/ p.dir = "rem"
                 /\ S.bal["ifund"] >= 3 * (q + p.notional + p.margin + Abs(FundingOwed(S, v, p)))
\* the same listed conditions, but with the insurance fund's sufficiency judged exactly: the fund
\* "holds enough to cover any shortfall" iff the specification's own execution of this Liquidate
\* (Vm.tla: every fund withdrawal, with the balances of the recorded pre-state) goes through
LiqEnabledExact(S, e) ==
  LET v == e.tx.a.vamm
      t == e.tx.a.trader
  IN /\ v \in Vs(S) /\ t \in Traders
     /\ e.fault = 0 /\ e.tx.a.limit = 0
     /\ S.eng.pos_extra = <<>>
     /\ LET p  == PosOf(S, v, t)
            vm == S.vamm[v]
            lr == LiqRatio(S, v, t)
        IN /\ Held(p)
           /\ lr.ok /\ lr.val < S.eng.cfg.mmr
           /\ vm.st.open /\ IsRegistered(S, v) /\ EngineVamm(S, v)
           /\ S.eng.cfg.ifund = "ifund" /\ vm.cfg.D = S.eng.cfg.D
           /\ S.eng.cfg.liqfee # 0
           /\ CheckFluct(vm, S.blk.h, "add", 0, 0, TRUE) = "ok"
     /\ RunTx(S, e.tx, 0).ok
V_C07(S, e, T, aux) ==
  IF EngOp(e, "liquidate") /\ ~e.res.ok /\ (LiqEnabled(S, e) \/ LiqEnabledExact(S, e)) THEN {"C07.live"} ELSE {}
A_C07(S, e, T, aux) ==
  IF EngOp(e, "liquidate") /\ (LiqEnabled(S, e) \/ LiqEnabledExact(S, e))
  THEN {"enabled"} \cup (IF ~LiqEnabled(S, e) THEN {"enabled_exact_fund"} ELSE {}) \cup (IF S.eng.cfg.plr # 0 THEN {"plr_set"} ELSE {})
       \cup (IF LiqRatio(S, e.tx.a.vamm, e.tx.a.trader).val < 0 THEN {"negative_ratio"} ELSE {})
       \cup (IF S.bal["engine"] < PosOf(S, e.tx.a.vamm, e.tx.a.trader).margin THEN {"vault_short"} ELSE {})
       \cup (IF S.feed.kind = "real" THEN {"real_feed"} ELSE {})
  ELSE {}

(* C08 -- all-or-nothing, no in-flight residue *)
V_C08(S, e, T, aux) ==
  (IF e.kind = "tx" /\ e.tx.c = "engine"
   THEN Tag(e.res.ok \/ Unchanged(e), "C08.atomic")
        \cup Tag(~e.fired \/ ~e.res.ok, "C08.swallowed")
        \cup Tag(e.res.ok => \A i \in 1..Len(e.calls) : e.calls[i].ok, "C08.subfail")
   ELSE {})
  \cup Tag(~T.eng.tmp.swap /\ ~T.eng.tmp.funds /\ ~T.eng.tmp.liq, "C08.residue")
A_C08(S, e, T, aux) ==
  IF e.kind = "tx" /\ e.tx.c = "engine"
  THEN (IF e.fired THEN {"injected", e.tx.m} ELSE {})
       \cup (IF ~e.res.ok /\ ~e.fired /\ Len(e.calls) > 1 THEN {"natural_subfailure"} ELSE {})
       \cup (IF e.fired /\ \E i \in 1..Len(e.calls) : e.calls[i].injected /\ e.calls[i].msg \in {"transfer", "transfer_from", "bank_send"}
             THEN {"injected_transfer"} ELSE {})
       \cup (IF e.fired /\ \E i \in 1..Len(e.calls) : e.calls[i].injected /\ e.calls[i].msg = "withdraw"
             THEN {"injected_ifund_withdraw"} ELSE {})
       \cup (IF e.fired /\ \E i \in 1..Len(e.calls) : e.calls[i].injected /\ e.calls[i].msg \in {"swap_input", "swap_output"} /\ e.calls[i].n > 2
             THEN {"injected_second_swap"} ELSE {})
  ELSE {}

(* C09 -- privileged operations restricted to their role *)
\* Who holds a role is NOT read from the contracts' stored configuration (the very thing a defect may
\* corrupt) but from a ghost: the role map the deployment's own messages established (W.given, an input
\* recorded by the harness) updated by every successful role-transfer message since (RolesNext).
Roles(aux, S, e) ==
  LET c == e.tx.c
      m == e.tx.m
      r == aux.roles
  IN IF IsVammName(c) /\ c \in Vs(S)
     THEN CASE m \in {"swap_input", "swap_output", "settle_funding"} -> {r.vamm[c].engine}
            [] m \in {"update_config", "update_owner"} -> {r.vamm[c].owner}
            [] m = "set_open" -> {r.vamm[c].owner, r.vamm[c].ifund} \ {""}
            [] OTHER -> {}
     ELSE IF c = "engine"
     THEN CASE m = "update_config" -> {r.engine.owner}
            [] m \in {"set_pause", "update_pauser", "add_whitelist", "remove_whitelist"} -> {r.engine.pauser}
            [] OTHER -> {"*"}
     ELSE IF c = "ifund"
     THEN CASE m = "withdraw" -> {r.ifund.engine}
            [] m \in {"add_vamm", "remove_vamm", "update_owner"} -> {r.ifund.owner}
            [] m = "shutdown_vamms" -> {r.ifund.owner, "ifund"}
            [] OTHER -> {}
     ELSE IF c = "fpool" THEN {r.fpool.owner}
     ELSE IF c = "feed" /\ S.feed.kind = "real" THEN {r.feed.owner}
     ELSE {"*"}
RolesNext(r, S, e, T) ==
  IF ~(e.kind = "tx" /\ e.res.ok) THEN r
  ELSE LET c == e.tx.c
           m == e.tx.m
           a == e.tx.a
       IN IF IsVammName(c) /\ c \in DOMAIN r.vamm
          THEN IF m = "update_owner" THEN [r EXCEPT !.vamm[c].owner = a.owner]
               ELSE IF m = "update_config"
               THEN [r EXCEPT !.vamm[c].ifund = IF "ifund" \in DOMAIN a THEN a.ifund ELSE @,
                              !.vamm[c].engine = IF "engine" \in DOMAIN a THEN a.engine ELSE @]
               ELSE r
          ELSE IF c = "engine" /\ m = "update_config"
          THEN [r EXCEPT !.engine.owner = IF "owner" \in DOMAIN a THEN a.owner ELSE @,
                         !.engine.ifund = IF "ifund" \in DOMAIN a THEN a.ifund ELSE @,
                         !.engine.fpool = IF "fpool" \in DOMAIN a THEN a.fpool ELSE @]
          ELSE IF c = "engine" /\ m = "update_pauser" THEN [r EXCEPT !.engine.pauser = a.pauser]
          ELSE IF c = "ifund" /\ m = "update_owner" THEN [r EXCEPT !.ifund.owner = a.owner]
          ELSE IF c = "fpool" /\ m = "update_owner" THEN [r EXCEPT !.fpool.owner = a.owner]
          ELSE IF c = "feed" /\ m = "update_owner" /\ S.feed.kind = "real" THEN [r EXCEPT !.feed.owner = a.owner]
          ELSE r
V_C09(S, e, T, aux) ==
  IF e.kind = "tx"
  THEN Tag(~e.res.ok \/ "*" \in Roles(aux, S, e) \/ e.tx.s \in Roles(aux, S, e), "C09.role")
       \cup Tag(e.res.ok \/ Unchanged(e), "C09.unchanged")
  ELSE {}
A_C09(S, e, T, aux) ==
  IF e.kind = "tx" /\ ~("*" \in Roles(aux, S, e))
  THEN {IF e.res.ok THEN "privileged_ok" ELSE "privileged_denied"}
       \cup (IF e.res.ok /\ e.tx.m \in {"update_owner", "update_pauser"} THEN {"role_transfer"} ELSE {})
       \cup (IF e.res.ok /\ e.tx.m = "update_config" /\ e.tx.c = "engine" /\ "owner" \in DOMAIN e.tx.a THEN {"role_transfer"} ELSE {})
  ELSE {}

(* C10 -- one account's transaction never alters another trader's position *)
V_C10(S, e, T, aux) ==
  IF e.kind = "tx"
  THEN Tag(\A v \in Vs(T), t \in Traders :
              (t # e.tx.s /\ ~(EngOp(e, "liquidate") /\ e.tx.a.trader = t))
                 => T.eng.pos[v][t] = S.eng.pos[v][t], "C10.frame")
       \* ... and neither does the position the engine's own Position query answers for them (a record the
       \* engine can no longer find has been altered, whatever the storage still holds)
       \cup Tag(("posq" \in DOMAIN T.eng /\ "posq" \in DOMAIN S.eng)
                  => \A v \in Vs(T) \cap Vs(S), t \in Traders :
                        (t # e.tx.s /\ ~(EngOp(e, "liquidate") /\ e.tx.a.trader = t))
                           => T.eng.posq[v][t] = S.eng.posq[v][t], "C10.frame_view")
       \cup Tag(T.eng.pos_extra = S.eng.pos_extra
                \/ \A i \in 1..Len(T.eng.pos_extra) : T.eng.pos_extra[i].trader = e.tx.s, "C10.extra")
  ELSE IF e.kind = "query" THEN Tag(Unchanged(e), "C10.query")
  ELSE Tag(T.eng.pos = S.eng.pos, "C10.block")
A_C10(S, e, T, aux) ==
  IF e.kind = "tx" /\ e.res.ok /\ T.eng.pos # S.eng.pos
  THEN {"position_changed"} \cup (IF Cardinality({t \in Traders : \E v \in Vs(S) : Held(PosOf(S, v, t))}) >= 2 THEN {"several_traders"} ELSE {})
  ELSE IF e.kind = "query" THEN {"query"} ELSE {}

(* C11 -- funding on schedule, exact, charged once *)
V_C11(S, e, T, aux) ==
  (IF EngOp(e, "pay_funding") /\ e.res.ok /\ e.tx.a.vamm \in Vs(S)
   THEN LET v  == e.tx.a.vamm
            vm == S.vamm[v]
            tv == TwapPrice(vm, S.blk.t, vm.cfg.twapint)
            to == OracleTwap(S, v, vm.cfg.twapint)
            frac == SDiv((tv - to) * vm.cfg.period, ONE_DAY)
            pay == SDiv(vm.st.total * frac, S.eng.cfg.D)
        IN Tag(S.blk.t >= vm.st.next, "C11.early")
           \cup Tag(Bad(tv) \/ Bad(to) \/ Cpf(T, v) = Cpf(S, v) + frac, "C11.frac")
           \cup Tag(T.vamm[v].st.next >= S.blk.t + vm.cfg.period \div 2, "C11.next")
           \cup (IF Bad(tv) \/ Bad(to) THEN {}
                 ELSE IF pay > 0
                 THEN Tag(Sent(e, "engine", "ifund") = Min(pay, S.bal["engine"])
                          /\ Sent(e, "ifund", "engine") = 0, "C11.transfer")
                 ELSE IF pay < 0
                 THEN Tag(Sent(e, "ifund", "engine") = -pay /\ Sent(e, "engine", "ifund") = 0,
                          "C11.transfer")
                 ELSE Tag(e.xfers = <<>>, "C11.transfer"))
   ELSE {})
  \cup
  \* charging: whenever the owner trades on / withdraws from / closes the position, or it is fully
  \* liquidated, the funding owed is charged and the checkpoint moves to the current value
  (IF e.kind = "tx" /\ e.tx.c = "engine" /\ e.res.ok
      /\ e.tx.m \in {"open_position", "close_position", "withdraw_margin"}
      /\ e.tx.a.vamm \in Vs(S) /\ e.tx.s \in Traders
   THEN LET v == e.tx.a.vamm
            t == e.tx.s
            p == PosOf(S, v, t)
            p2 == PosOf(T, v, t)
            f == OwedG(aux, S, v, t, p)
        IN Tag(~Held(p2) \/ p2.lupf = Cpf(S, v), "C11.checkpoint")     \* S: the ghost cumulative fraction (unchanged by this step)
           \cup (IF e.tx.m = "open_position" /\ Held(p) /\ Len(e.swaps) = 1 /\ e.swaps[1].type = "input"
                    /\ (p.dir = "add") = (e.tx.a.side = "buy")
                    /\ ~S.eng.cfg.native
                 THEN \* increase: margin' = margin - funding + (collateral the trader paid into the vault)
                      Tag(p2.margin = Max(0, p.margin - f + Sent(e, t, "engine")), "C11.charge_increase")
                 ELSE {})
           \cup (IF e.tx.m = "open_position" /\ Held(p) /\ f # 0 /\ Len(e.swaps) >= 1 /\ e.swaps[1].type = "output"
                    /\ ~S.eng.cfg.native
                 THEN \* reversal: the closed leg settles the funding owed on it, so the trader's wallet
                      \* changes by (old equity) - (margin of the new position) - fees
                      LET pnl == ClosePnl(p, e.swaps[1].quote)
                          equity == p.margin + pnl - f
                          newmargin == IF Held(p2) THEN p2.margin ELSE 0
                          fees == Sent(e, t, "ifund") + Sent(e, t, "fpool")
                      IN Tag(T.bal[t] - S.bal[t] = equity - newmargin - fees, "C11.charge_reversal")
                 ELSE {})
   ELSE {})
\* the cumulative premium fraction of a vAMM changes only through a successful PayFunding on it
V_C11b(S, e, T, aux) ==
  UNION { IF EngOp(e, "pay_funding") /\ e.res.ok /\ e.tx.a.vamm = v THEN {}
          ELSE Tag(Cpf(T, v) = Cpf(S, v), "C11.fraction_changed_without_settlement")
        : v \in Vs(T) }
A_C11(S, e, T, aux) ==
  IF EngOp(e, "pay_funding") /\ e.res.ok THEN
      {"settled"} \cup (IF e.xfers # <<>> THEN {"payment"} ELSE {})
      \cup (IF Cpf(T, e.tx.a.vamm) # Cpf(S, e.tx.a.vamm) THEN {"nonzero_premium"} ELSE {})
  ELSE IF EngOp(e, "pay_funding") /\ e.res.err = "other" THEN {"rejected"}
  ELSE IF e.kind = "tx" /\ e.tx.c = "engine" /\ e.res.ok /\ e.tx.m \in {"open_position", "close_position", "withdraw_margin"}
          /\ e.tx.a.vamm \in Vs(S) /\ e.tx.s \in Traders /\ FundingOwed(S, e.tx.a.vamm, PosOf(S, e.tx.a.vamm, e.tx.s)) # 0
       THEN {"charged"} \cup (IF Len(e.swaps) = 2 THEN {"charged_reversal"} ELSE {})
  ELSE {}

(* C12 -- trading fees exact, once, to the right pools *)
V_C12(S, e, T, aux) ==
  IF e.kind = "tx" /\ e.tx.c = "engine" /\ e.res.ok /\ "vamm" \in DOMAIN e.tx.a /\ e.tx.a.vamm \in Vs(S)
  THEN LET v == e.tx.a.vamm
           vm == S.vamm[v]
           fee(n) == [spread |-> (n * vm.cfg.spread) \div vm.cfg.D, toll |-> (n * vm.cfg.toll) \div vm.cfg.D]
           \* "the insurance fund" / "the fee pool" are the accounts the ENGINE was told to pay (ghost: the
           \* deployment's messages and every successful UpdateConfig since); no verdict while one of them
           \* is the sender or the vault itself (their fee receipts cannot be told from other transfers)
           IF0 == aux.roles.engine.ifund
           FP0 == aux.roles.engine.fpool
           judged == IF0 \notin {e.tx.s, "engine"} /\ FP0 \notin {e.tx.s, "engine"}
           want(to, f) == (IF to = IF0 THEN f.spread ELSE 0) + (IF to = FP0 THEN f.toll ELSE 0)
           paid(f) == SentTo(e, IF0) = want(IF0, f) /\ SentTo(e, FP0) = want(FP0, f)
       IN IF ~judged THEN {}
          ELSE
          CASE e.tx.m = "open_position" ->
                 LET n == (e.tx.a.margin * e.tx.a.leverage) \div S.eng.cfg.D
                 IN Tag(paid(fee(n)), "C12.open")
            [] e.tx.m = "close_position" /\ e.tx.s \in Traders ->
                 \* whole close: the fee the vAMM quotes for the position's open notional (the statement
                 \* does not fix the fee base of a partial close)
                 LET p == PosOf(S, v, e.tx.s)
                 IN IF PosOf(T, v, e.tx.s).exists THEN {}
                    ELSE Tag(paid(fee(p.notional)), "C12.close")
            [] e.tx.m \in {"deposit_margin", "withdraw_margin"} ->
                 Tag(SentTo(e, IF0) = 0 /\ SentTo(e, FP0) = 0, "C12.nofee")
            [] e.tx.m \in {"liquidate", "pay_funding"} ->
                 Tag(SentTo(e, FP0) = 0 \/ FP0 = IF0, "C12.nofee")
            [] OTHER -> {}
  ELSE {}
A_C12(S, e, T, aux) ==
  IF e.kind = "tx" /\ e.tx.c = "engine" /\ e.res.ok /\ "vamm" \in DOMAIN e.tx.a /\ e.tx.a.vamm \in Vs(S)
     /\ (S.vamm[e.tx.a.vamm].cfg.toll # 0 \/ S.vamm[e.tx.a.vamm].cfg.spread # 0)
  THEN {"fees_on", e.tx.m} \cup (IF Len(e.swaps) = 2 THEN {"reversal"} ELSE {})
       \cup (IF e.tx.m = "open_position" /\ SentTo(e, "fpool") = 0 /\ SentTo(e, "ifund") = 0 THEN {"rounds_to_zero"} ELSE {})
  ELSE {}

\* The gates the property talks about are ghosts too: "paused" is what the successful SetPause transactions
\* since the deployment established, "open" what the successful SetOpen transactions did, "registered" what
\* the successful AddVamm / RemoveVamm transactions did - not the stored flags, which a defect may reset
\* behind the administrators' backs (an emergency shutdown follows the record: C14.shutdown judges that step).
GateInit(W) ==
  [paused |-> W.eng.st.paused,
   open   |-> [v \in Vs(W) |-> W.vamm[v].st.open],
   reg    |-> {W.ifund.vamms[i] : i \in 1..Len(W.ifund.vamms)}]
GateNext(g, S, e, T) ==
  [paused |-> IF EngOp(e, "set_pause") /\ e.res.ok THEN e.tx.a.pause ELSE g.paused,
   open   |-> [v \in Vs(T) |->
                 IF e.kind = "tx" /\ e.tx.c = v /\ e.tx.m = "set_open" /\ e.res.ok THEN e.tx.a.open
                 ELSE IF Op(e, "ifund", "shutdown_vamms") /\ e.res.ok THEN T.vamm[v].st.open
                 ELSE IF v \in DOMAIN g.open THEN g.open[v] ELSE T.vamm[v].st.open],
   reg    |-> IF Op(e, "ifund", "add_vamm") /\ e.res.ok THEN g.reg \cup {e.tx.a.vamm}
              ELSE IF Op(e, "ifund", "remove_vamm") /\ e.res.ok THEN g.reg \ {e.tx.a.vamm}
              ELSE g.reg]
GPaused(aux, S) == IF "gate" \in DOMAIN aux THEN aux.gate.paused ELSE S.eng.st.paused
GOpen(aux, S, v) == IF "gate" \in DOMAIN aux /\ v \in DOMAIN aux.gate.open THEN aux.gate.open[v] ELSE S.vamm[v].st.open
GReg(aux, S, v) == IF "gate" \in DOMAIN aux THEN v \in aux.gate.reg ELSE IsRegistered(S, v)

(* C14 -- pause, closed markets, emergency shutdown *)
NoDup(s) == \A i, j \in 1..Len(s) : i # j => s[i] # s[j]
V_C14(S, e, T, aux) ==
  (IF e.kind = "tx" /\ e.tx.c = "engine"
   THEN LET m == e.tx.m
            hasv == "vamm" \in DOMAIN e.tx.a /\ e.tx.a.vamm \in Vs(S)
        IN (IF GPaused(aux, S) /\ m \in {"open_position", "close_position", "deposit_margin", "withdraw_margin"}
            THEN Tag(~e.res.ok /\ Unchanged(e), "C14.paused") ELSE {})
           \cup (IF m \in {"liquidate", "pay_funding"}
                 THEN Tag(e.res.err # "paused", "C14.paused_liq") ELSE {})
           \cup (IF hasv /\ ~GOpen(aux, S, e.tx.a.vamm)
                    /\ m \in {"open_position", "close_position", "liquidate", "withdraw_margin", "pay_funding"}
                 THEN Tag(~e.res.ok, "C14.closed") ELSE {})
           \cup (IF hasv /\ ~GReg(aux, S, e.tx.a.vamm)
                    /\ m \in {"open_position", "liquidate", "withdraw_margin", "pay_funding"}
                 THEN Tag(~e.res.ok, "C14.unregistered") ELSE {})
   ELSE {})
  \cup Tag(NoDup(T.ifund.vamms) /\ Len(T.ifund.vamms) <= 3, "C14.registry")
  \cup (IF e.kind = "query" /\ e.tx.c = "ifund" /\ e.tx.m = "is_vamm" /\ e.res.ok
        THEN Tag(e.res.val.is_vamm = IsRegistered(S, e.tx.a.vamm), "C14.isvamm") ELSE {})
  \cup (IF e.kind = "query" /\ e.tx.c = "ifund" /\ e.tx.m = "get_all_vamm" /\ e.res.ok
        THEN Tag(e.res.val.vamm_list = S.ifund.vamms, "C14.allvamm") ELSE {})
  \* (deployment assumption of the statement: the registered vAMMs name this fund as their insurance fund;
  \*  a vAMM configured without it cannot be closed by the fund at all -- reading recorded in DESIGN.md 12.3)
  \cup (IF Op(e, "ifund", "shutdown_vamms") /\ e.tx.s = aux.roles.ifund.owner /\ e.fault = 0
           /\ \A i \in 1..Len(S.ifund.vamms) :
                 S.ifund.vamms[i] \in DOMAIN aux.roles.vamm => aux.roles.vamm[S.ifund.vamms[i]].ifund = "ifund"
        THEN Tag(\A i \in 1..Len(S.ifund.vamms) :
                    S.ifund.vamms[i] \in Vs(T) => ~T.vamm[S.ifund.vamms[i]].st.open, "C14.shutdown")
        ELSE {})
A_C14(S, e, T, aux) ==
  IF e.kind = "tx" /\ e.tx.c = "engine"
  THEN (IF GPaused(aux, S) THEN {"paused", e.tx.m} ELSE {})
       \cup (IF "vamm" \in DOMAIN e.tx.a /\ e.tx.a.vamm \in Vs(S) /\ ~S.vamm[e.tx.a.vamm].st.open THEN {"closed"} ELSE {})
       \cup (IF "vamm" \in DOMAIN e.tx.a /\ e.tx.a.vamm \in Vs(S) /\ ~IsRegistered(S, e.tx.a.vamm) THEN {"unregistered"} ELSE {})
       \cup (IF GPaused(aux, S) /\ e.tx.m \in {"liquidate", "pay_funding"} /\ e.res.ok THEN {"paused_but_available"} ELSE {})
  ELSE IF Op(e, "ifund", "shutdown_vamms") /\ e.tx.s = S.ifund.owner
  THEN {"shutdown"} \cup (IF \E i \in 1..Len(S.ifund.vamms) : S.ifund.vamms[i] \in Vs(S) /\ ~S.vamm[S.ifund.vamms[i]].st.open
                          THEN {"shutdown_with_closed"} ELSE {})
  ELSE IF e.kind = "query" /\ e.tx.c = "ifund" THEN {"registry_query"}
  ELSE {}

(* C15 -- per-block price band *)
\* the band is defined relative to the end of the *previous* block: such a snapshot must exist
\* "the price at the end of the previous block" is a ghost: the reserves recorded when the current block
\* began (aux.open0, set by every block event), not the implementation's own snapshot list -- a defect
\* that corrupts the snapshots must not move the band the property is judged against.  Before the first
\* block event of a history (the deployment block) there is no previous block and nothing is judged.
HasPrevBlockG(aux, v) == aux.open0[v].set
InBandG(aux, vm, v, price) ==
  LET o  == aux.open0[v]
      lp == CDiv(o.x * vm.cfg.D, o.y)
      up == IF Bad(lp) THEN FAIL ELSE (lp * (vm.cfg.D + vm.cfg.fluct)) \div vm.cfg.D
      lo == IF Bad(lp) THEN FAIL ELSE (lp * (vm.cfg.D - vm.cfg.fluct)) \div vm.cfg.D
  IN ~Bad(lp) /\ ~Bad(price) /\ price <= up /\ price >= lo
V_C15(S, e, T, aux) ==
  (IF EngOp(e, "open_position") /\ e.tx.a.vamm \in Vs(S) /\ e.tx.s \in Traders
      /\ S.vamm[e.tx.a.vamm].cfg.fluct # 0 /\ S.vamm[e.tx.a.vamm].cfg.fluct <= S.vamm[e.tx.a.vamm].cfg.D
      /\ HasPrevBlockG(aux, e.tx.a.vamm)
   THEN LET v == e.tx.a.vamm
            vm == S.vamm[v]
        IN (IF e.res.ok /\ Held(PosOf(T, v, e.tx.s))
            THEN Tag(InBandG(aux, vm, v, Spot(T.vamm[v])), "C15.band")
                 \cup Tag(InBandG(aux, vm, v, Spot(vm)), "C15.already")
            ELSE {})
   ELSE {})
  \cup
  (IF EngOp(e, "close_position") /\ e.res.ok /\ e.tx.a.vamm \in Vs(S) /\ e.tx.s \in Traders
      /\ S.vamm[e.tx.a.vamm].cfg.fluct # 0 /\ S.vamm[e.tx.a.vamm].cfg.fluct <= S.vamm[e.tx.a.vamm].cfg.D
      /\ S.eng.cfg.plr < S.eng.cfg.D /\ Held(PosOf(S, e.tx.a.vamm, e.tx.s))
      /\ HasPrevBlockG(aux, e.tx.a.vamm)
   THEN LET v == e.tx.a.vamm
            vm == S.vamm[v]
            p == PosOf(S, v, e.tx.s)
            b == Abs(p.size)
            q == OutputPrice(vm.cfg.D, p.dir, b, vm.st.x, vm.st.y)
            \* closing a long returns base to the curve (price falls), closing a short removes it
            after == IF Bad(q) THEN FAIL
                     ELSE IF p.dir = "add" THEN CDiv(CSub(vm.st.x, q) * vm.cfg.D, vm.st.y + b)
                     ELSE CDiv((vm.st.x + q) * vm.cfg.D, CSub(vm.st.y, b))
            keeps == ~Bad(after) /\ (p.dir = "rem" \/ ~Bad(CSub(vm.st.x, q))) /\ InBandG(aux, vm, v, after)
            whole == ~PosOf(T, v, e.tx.s).exists
            chunk == (b * S.eng.cfg.plr) \div S.eng.cfg.D
            cq == OutputPrice(vm.cfg.D, p.dir, chunk, vm.st.x, vm.st.y)
            exch == IF Bad(cq) THEN FAIL ELSE InputPrice(vm.cfg.D, Flip(p.dir), cq, vm.st.x, vm.st.y)
        IN \* "closes the whole position only if doing so keeps the price inside the band": one direction
           \* only -- a more conservative implementation (partial although the whole close would fit)
           \* still satisfies the statement
           Tag(whole => keeps, "C15.close_whole")
           \cup (IF ~whole
                 THEN Tag(Abs(PosOf(T, v, e.tx.s).size) = b - chunk
                          \/ (~Bad(exch) /\ Abs(PosOf(T, v, e.tx.s).size) = b - exch), "C15.close_partial")
                 ELSE {})
   ELSE {})
A_C15(S, e, T, aux) ==
  IF e.kind = "tx" /\ e.tx.c = "engine" /\ "vamm" \in DOMAIN e.tx.a /\ e.tx.a.vamm \in Vs(S) /\ S.vamm[e.tx.a.vamm].cfg.fluct # 0
     /\ HasPrevBlockG(aux, e.tx.a.vamm)
  THEN (IF e.tx.m = "open_position" /\ e.res.ok THEN {"open_in_band"} ELSE {})
       \cup (IF e.tx.m = "open_position" /\ e.res.err = "other" /\ Len(e.calls) > 1 THEN {"open_rejected_by_swap"} ELSE {})
       \cup (IF e.tx.m = "close_position" /\ e.res.ok /\ S.eng.cfg.plr < S.eng.cfg.D
             THEN {IF PosOf(T, e.tx.a.vamm, e.tx.s).exists THEN "partial_close" ELSE "whole_close"} ELSE {})
       \cup (IF e.tx.m = "close_position" /\ e.res.ok /\ e.tx.s \in Traders /\ PosOf(S, e.tx.a.vamm, e.tx.s).dir = "add" THEN {"close_long"} ELSE {})
  ELSE {}

(* C16 -- restriction mode after a liquidation *)
V_C16(S, e, T, aux) ==
  IF e.kind = "tx" /\ e.tx.c = "engine" /\ e.tx.m \in {"open_position", "close_position"}
     /\ e.tx.a.vamm \in Vs(S) /\ e.tx.s \in Traders
  THEN LET v == e.tx.a.vamm
           p == PosOf(S, v, e.tx.s)
           \* "already updated in that block": the last successful update of the trader's position on
           \* this vAMM -- an open / close of their own (also one that removed the position) or a
           \* liquidation of it -- taken from the history (ghost), not the stored stamp the
           \* implementation consults
           restricted == aux.liqblk[v] = S.blk.h /\ aux.upd[v][e.tx.s] = S.blk.h
       IN IF restricted THEN Tag(~e.res.ok /\ Unchanged(e), "C16.must_fail")
          ELSE Tag(e.res.err # "restriction", "C16.no_restrict")
  ELSE {}
A_C16(S, e, T, aux) ==
  IF e.kind = "tx" /\ e.tx.c = "engine" /\ e.tx.m \in {"open_position", "close_position"}
     /\ e.tx.a.vamm \in Vs(S) /\ e.tx.s \in Traders
  THEN LET v == e.tx.a.vamm
           p == PosOf(S, v, e.tx.s)
       IN (IF aux.liqblk[v] = S.blk.h /\ aux.upd[v][e.tx.s] = S.blk.h THEN {"restricted"} ELSE {})
          \cup (IF aux.liqblk[v] = S.blk.h /\ aux.upd[v][e.tx.s] = S.blk.h /\ ~p.exists THEN {"restricted_without_position"} ELSE {})
          \cup (IF aux.liqblk[v] = S.blk.h /\ ~(aux.upd[v][e.tx.s] = S.blk.h) THEN {"bystander_same_block"} ELSE {})
          \cup (IF aux.liqblk[v] = S.blk.h /\ p.exists /\ aux.upd[v][e.tx.s] = S.blk.h /\ Abs(PosOf(T, v, e.tx.s).size) < Abs(p.size) THEN {"reduced_then_restricted"} ELSE {})
          \cup (IF aux.liqblk[v] # 0 /\ aux.liqblk[v] < S.blk.h THEN {"later_block"} ELSE {})
  ELSE IF EngOp(e, "liquidate") /\ e.res.ok THEN {"liquidation"} ELSE {}

(* C17 -- quotes equal executions; slippage limits *)
V_C17(S, e, T, aux) ==
  (IF e.kind = "tx" /\ IsVammName(e.tx.c) /\ e.tx.c \in Vs(S) /\ e.tx.m \in {"swap_input", "swap_output"}
      /\ e.tx.s = S.vamm[e.tx.c].cfg.engine /\ S.vamm[e.tx.c].st.open
   THEN LET v == e.tx.c
            inp == e.tx.m = "swap_input"
            a == e.tx.a
            hasq == aux.lastq.ok /\ aux.lastq.c = v /\ aux.lastq.dir = a.dir /\ aux.lastq.amount = a.amount
                    /\ aux.lastq.q = (IF inp THEN "input_amount" ELSE "output_amount")
            quoted == aux.lastq.val
            \* receives at least / gives at most, by direction
            \* (an empty swap exchanges nothing and is held to the limit like any other)
            limitok == IF a.limit = 0 THEN TRUE
                       ELSE IF inp THEN (IF a.dir = "add" THEN quoted >= a.limit ELSE quoted <= a.limit)
                       ELSE (IF a.dir = "add" THEN quoted >= a.limit ELSE quoted <= a.limit)
        IN (IF e.res.ok
            THEN (IF hasq THEN Tag((IF inp THEN SwapBase(e) ELSE SwapQuote(e)) = quoted, "C17.quote")
                               \cup Tag(limitok, "C17.limit_ignored")
                  ELSE {})
                 \cup Tag(IF inp
                          THEN T.vamm[v].st.x = (IF a.dir = "add" THEN S.vamm[v].st.x + a.amount ELSE S.vamm[v].st.x - a.amount)
                          ELSE T.vamm[v].st.y = (IF a.dir = "add" THEN S.vamm[v].st.y + a.amount ELSE S.vamm[v].st.y - a.amount),
                          "C17.exact")
            ELSE Tag(Unchanged(e), "C17.failed_changed")
                 \cup (IF hasq /\ e.res.err = "slippage" THEN Tag(~limitok, "C17.limit_spurious") ELSE {}))
   ELSE {})
  \cup
  \* through the engine: the caller's limit reaches the vAMM unchanged on open/increase/reduce and whole close
  (IF EngOp(e, "open_position") /\ Len(e.calls) >= 2 /\ e.calls[2].msg = "swap_input"
   THEN Tag(e.calls[2].args.base_asset_limit = e.tx.a.limit, "C17.forward_open") ELSE {})
  \cup
  \* outcome-based, and on the SPECIFICATION's own classification of the order (not on the path the
  \* implementation chose): an OpenPosition that opens, increases or reduces a position - the sender holds
  \* nothing, or trades on the position's side, or trades against it for less than its current value -
  \* and succeeds with a non-zero limit has given the sender at least the limit (buy) / taken at most the
  \* limit (sell) in base asset
  (IF EngOp(e, "open_position") /\ e.res.ok /\ e.tx.a.limit # 0 /\ e.tx.a.vamm \in Vs(S) /\ e.tx.s \in Traders
   THEN LET v == e.tx.a.vamm
            t == e.tx.s
            p == PosOf(S, v, t)
            p2 == PosOf(T, v, t)
            n == (e.tx.a.margin * e.tx.a.leverage) \div S.eng.cfg.D
            same == (p.size > 0) = (e.tx.a.side = "buy")
            pn == [p EXCEPT !.dir = IF p.size > 0 THEN "add" ELSE "rem"]      \* direction from the sign of the size
            val == IF Held(p) /\ ~same THEN PnL(S, v, pn, "spot") ELSE [ok |-> TRUE, over |-> FALSE, notional |-> 0, pnl |-> 0]
            class == IF ~Held(p) THEN "open" ELSE IF same THEN "increase"
                     ELSE IF val.over \/ ~val.ok THEN "unknown" ELSE IF val.notional > n THEN "reduce" ELSE "reversal"
            s1 == IF p.exists THEN p.size ELSE 0
            s2 == IF p2.exists THEN p2.size ELSE 0
            d == Abs(s2 - s1)
        IN IF class \in {"open", "increase", "reduce"}
           THEN Tag(IF e.tx.a.side = "buy" THEN d >= e.tx.a.limit ELSE d <= e.tx.a.limit, "C17.engine_limit_outcome")
           ELSE {}
   ELSE {})
  \cup
  \* a trader who holds nothing opens a position: the trade that opens it carries the caller's limit,
  \* whatever stale record the engine keeps for that trader
  (IF EngOp(e, "open_position") /\ e.tx.a.vamm \in Vs(S) /\ e.tx.s \in Traders /\ ~Held(PosOf(S, e.tx.a.vamm, e.tx.s))
   THEN Tag(\A i \in 1..Len(e.calls) : (e.calls[i].entry = "execute" /\ e.calls[i].msg = "swap_input")
                                          => e.calls[i].args.base_asset_limit = e.tx.a.limit, "C17.forward_open_flat")
   ELSE {})
  \cup
  (IF EngOp(e, "close_position") /\ Len(e.calls) >= 2 /\ e.calls[2].msg = "swap_output"
   THEN Tag(e.calls[2].args.quote_asset_limit = e.tx.a.limit, "C17.forward_close") ELSE {})
A_C17(S, e, T, aux) ==
  IF e.kind = "tx" /\ IsVammName(e.tx.c) /\ e.tx.m \in {"swap_input", "swap_output"}
  THEN {e.tx.m} \cup (IF aux.lastq.ok THEN {"quoted"} ELSE {})
       \cup (IF e.tx.a.limit # 0 THEN {IF e.res.ok THEN "limit_met" ELSE "limit_rejected"} ELSE {})
       \cup (IF e.tx.a.limit # 0 /\ aux.lastq.ok /\ aux.lastq.val = e.tx.a.limit THEN {"limit_exact"} ELSE {})
  ELSE IF e.kind = "tx" /\ e.tx.c = "engine" /\ e.tx.m \in {"open_position", "close_position"} /\ e.tx.a.limit # 0
  THEN {"engine_limit"} ELSE {}

(* C18 -- TWAPs stay within observed prices *)
\* snapshot prices whose validity overlaps [now - interval, now]
WindowPrices(vm, now, interval) ==
  LET n == Len(vm.snaps)
      base == now - interval
      idx == {i \in 1..n : i = n \/ vm.snaps[i + 1].t > base}
  IN {SnapPrice(vm.cfg.D, vm.snaps[i]) : i \in idx}
V_C18(S, e, T, aux) ==
  UNION { LET sn == T.vamm[v].snaps
              g  == GSnapsNext(aux.gsnaps, S, e, T)[v]
          IN Tag(\A i \in 1..(Len(sn) - 1) : sn[i].h < sn[i + 1].h, "C18.one_per_block")
             \cup Tag(Last(sn).x = T.vamm[v].st.x /\ Last(sn).y = T.vamm[v].st.y, "C18.final_reserves")
             \* every stored snapshot is the snapshot of its block: that block's final reserves, stamped with
             \* the time of the block's first trade (it may store fewer than the ghost, never different ones),
             \* and the latest block that traded has one
             \cup Tag(\A i \in 1..Len(sn) : \E j \in 1..Len(g) : g[j] = sn[i], "C18.block_final")
             \cup Tag(Last(sn).h = Last(g).h, "C18.latest_block")
        : v \in Vs(T) }
  \cup
  (IF e.kind = "query" /\ IsVammName(e.tx.c) /\ e.tx.c \in Vs(S) /\ e.tx.m = "twap_price" /\ e.res.ok
   THEN LET vm == GW(aux.gsnaps, S).vamm[e.tx.c]     \* the prices actually in effect: the ghost list
            ps == WindowPrices(vm, S.blk.t, e.tx.a.interval)
        IN Tag((\E p \in ps : p <= e.res.val) /\ (\E p \in ps : p >= e.res.val), "C18.bounds")
           \cup Tag(Cardinality({SnapPrice(vm.cfg.D, vm.snaps[i]) : i \in 1..Len(vm.snaps)}) # 1
                    \/ e.res.val = Spot(vm), "C18.constant")
   ELSE {})
  \cup
  (IF e.kind = "query" /\ e.tx.c = "feed" /\ S.feed.kind = "real" /\ e.res.ok
   THEN LET rs == aux.subs[e.tx.a.key]      \* every accepted submission, from the history (ghost)
            real == 1..Len(rs)
        IN IF rs = <<>> THEN {} ELSE
           CASE e.tx.m = "get_price" -> Tag(e.res.val.price = Last(rs).price /\ e.res.val.round_id = Len(rs), "C18.feed_latest")
             [] e.tx.m = "get_previous_price" ->
                  \* an answer must be the value submitted n rounds before the latest one: going back
                  \* as many rounds as were submitted (or more) has no such value
                  Tag(Len(rs) - e.tx.a.n >= 1 /\ e.res.val.price = rs[Len(rs) - e.tx.a.n].price
                      /\ e.res.val.round_id = Len(rs) - e.tx.a.n, "C18.feed_previous")
             [] e.tx.m = "get_twap_price" ->
                  LET base == S.blk.t - e.tx.a.interval
                      idx == {i \in real : i = Len(rs) \/ rs[i + 1].t > base}
                  IN Tag((\E i \in idx : rs[i].price <= e.res.val) /\ (\E i \in idx : rs[i].price >= e.res.val),
                         "C18.feed_bounds")
             [] OTHER -> {}
   ELSE {})
A_C18(S, e, T, aux) ==
  IF e.kind = "query" /\ e.tx.m = "twap_price" /\ e.res.ok /\ e.tx.c \in Vs(S)
  THEN {"vamm_twap"} \cup (IF Cardinality(WindowPrices(S.vamm[e.tx.c], S.blk.t, e.tx.a.interval)) > 1 THEN {"several_prices_in_window"} ELSE {})
       \cup (IF Len(S.vamm[e.tx.c].snaps) > 1 /\ S.blk.t - e.tx.a.interval < S.vamm[e.tx.c].snaps[1].t THEN {"interval_longer_than_history"} ELSE {})
  ELSE IF e.kind = "query" /\ e.tx.c = "feed" /\ e.res.ok THEN {"feed_" \o e.tx.m}
  ELSE IF e.kind = "tx" /\ e.swaps # <<>> /\ e.res.ok THEN {"snapshot_written"}
  ELSE {}

(* C20 -- risk caps and configuration bounds *)
RatioOk(r, D) == r >= 0 /\ r <= D
V_C20(S, e, T, aux) ==
  (IF EngOp(e, "open_position") /\ e.res.ok /\ e.tx.a.vamm \in Vs(S) /\ e.tx.s \in Traders
      /\ ~(\E i \in 1..Len(S.eng.whitelist) : S.eng.whitelist[i] = e.tx.s)
   THEN LET v == e.tx.a.vamm
            p == PosOf(S, v, e.tx.s)
            p2 == PosOf(T, v, e.tx.s)
            vm == S.vamm[v]
            increasing == Abs(p2.size) > Abs(p.size)
        IN (IF increasing /\ vm.cfg.oicap # 0 /\ T.eng.st.oi > S.eng.st.oi
            THEN Tag(T.eng.st.oi <= vm.cfg.oicap, "C20.oicap") ELSE {})
           \cup (IF increasing /\ vm.cfg.hcap # 0
                 THEN Tag(Abs(p2.size) <= vm.cfg.hcap, "C20.hcap") ELSE {})
   ELSE {})
  \cup (IF EngOp(e, "open_position") /\ ~e.res.ok /\ e.res.err = "cap"
           /\ \E i \in 1..Len(S.eng.whitelist) : S.eng.whitelist[i] = e.tx.s
        THEN {"C20.whitelist_exempt"} ELSE {})
  \cup Tag(/\ RatioOk(T.eng.cfg.imr, T.eng.cfg.D) /\ RatioOk(T.eng.cfg.mmr, T.eng.cfg.D)
           /\ RatioOk(T.eng.cfg.liqfee, T.eng.cfg.D) /\ RatioOk(T.eng.cfg.plr, T.eng.cfg.D)
           /\ T.eng.cfg.mmr <= T.eng.cfg.imr, "C20.engine_config")
  \cup UNION { Tag(/\ RatioOk(T.vamm[v].cfg.toll, T.vamm[v].cfg.D) /\ RatioOk(T.vamm[v].cfg.spread, T.vamm[v].cfg.D)
                   /\ RatioOk(T.vamm[v].cfg.fluct, T.vamm[v].cfg.D)
                   /\ T.vamm[v].cfg.twapint >= ONE_MINUTE /\ T.vamm[v].cfg.twapint <= ONE_WEEK, "C20.vamm_config")
             : v \in Vs(T) }
  \cup (IF Op(e, "ifund", "add_vamm") /\ e.res.ok /\ e.tx.a.vamm \in Vs(S)
        THEN Tag(S.vamm[e.tx.a.vamm].cfg.D = S.eng.cfg.D, "C20.decimals") ELSE {})
A_C20(S, e, T, aux) ==
  IF EngOp(e, "open_position") /\ e.tx.a.vamm \in Vs(S) /\ (S.vamm[e.tx.a.vamm].cfg.oicap # 0 \/ S.vamm[e.tx.a.vamm].cfg.hcap # 0)
  THEN {IF e.res.ok THEN "capped_open_ok" ELSE IF e.res.err = "cap" THEN "cap_rejected" ELSE "capped_open_failed"}
       \cup (IF \E i \in 1..Len(S.eng.whitelist) : S.eng.whitelist[i] = e.tx.s THEN {"whitelisted"} ELSE {})
  ELSE IF e.kind = "tx" /\ e.tx.m = "update_config" THEN {IF e.res.ok THEN "config_accepted" ELSE "config_rejected"}
  ELSE IF Op(e, "ifund", "add_vamm") THEN {IF e.res.ok THEN "registered" ELSE "registration_rejected"}
  ELSE {}

----------------------------------------------------------------------------
\* The oracles that value a position (PnL, margin ratio, funding, closing direction) take its direction
\* from the SIGN OF ITS SIZE -- the quantity C02 ties to the vAMM -- not from the stored direction field,
\* which a defect may leave stale (a long valued as a short would otherwise fool the oracle too).
NormPos(p) == IF p.exists /\ p.size > 0 THEN [p EXCEPT !.dir = "add"]
              ELSE IF p.exists /\ p.size < 0 THEN [p EXCEPT !.dir = "rem"] ELSE p
NormW(W) == [W EXCEPT !.eng.pos = [v \in DOMAIN W.eng.pos |-> [t \in DOMAIN W.eng.pos[v] |-> NormPos(W.eng.pos[v][t])]]]
RawIds == {"C01", "C03", "C09", "C10", "C14", "C17", "C18"}

ViolationsRaw(id, S, e, T, aux) ==
  CASE id = "C01" -> V_C01(S, e, T, aux) [] id = "C02" -> V_C02(S, e, T, aux)
    [] id = "C03" -> V_C03(S, e, T, aux) [] id = "C04" -> V_C04(S, e, T, aux)
    [] id = "C05" -> V_C05(S, e, T, aux) [] id = "C06" -> V_C06(S, e, T, aux)
    [] id = "C07" -> V_C07(S, e, T, aux) [] id = "C08" -> V_C08(S, e, T, aux)
    [] id = "C09" -> V_C09(S, e, T, aux) [] id = "C10" -> V_C10(S, e, T, aux)
    [] id = "C11" -> V_C11(S, e, T, aux) \cup V_C11b(S, e, T, aux) [] id = "C12" -> V_C12(S, e, T, aux)
    [] id = "C14" -> V_C14(S, e, T, aux) [] id = "C15" -> V_C15(S, e, T, aux)
    [] id = "C16" -> V_C16(S, e, T, aux) [] id = "C17" -> V_C17(S, e, T, aux)
    [] id = "C18" -> V_C18(S, e, T, aux) [] id = "C20" -> V_C20(S, e, T, aux)
    [] OTHER -> {}

AntecedentsRaw(id, S, e, T, aux) ==
  CASE id = "C01" -> A_C01(S, e, T, aux) [] id = "C02" -> A_C02(S, e, T, aux)
    [] id = "C03" -> A_C03(S, e, T, aux) [] id = "C04" -> A_C04(S, e, T, aux)
    [] id = "C05" -> A_C05(S, e, T, aux) [] id = "C06" -> A_C06(S, e, T, aux)
    [] id = "C07" -> A_C07(S, e, T, aux) [] id = "C08" -> A_C08(S, e, T, aux)
    [] id = "C09" -> A_C09(S, e, T, aux) [] id = "C10" -> A_C10(S, e, T, aux)
    [] id = "C11" -> A_C11(S, e, T, aux) [] id = "C12" -> A_C12(S, e, T, aux)
    [] id = "C14" -> A_C14(S, e, T, aux) [] id = "C15" -> A_C15(S, e, T, aux)
    [] id = "C16" -> A_C16(S, e, T, aux) [] id = "C17" -> A_C17(S, e, T, aux)
    [] id = "C18" -> A_C18(S, e, T, aux) [] id = "C20" -> A_C20(S, e, T, aux)
    [] OTHER -> {}


\* The cumulative premium fraction and the positions' funding checkpoints are ghosts as well: the
\* cumulative fraction is advanced by the specification's own premium (vAMM TWAP over the ghost snapshots
\* minus oracle TWAP, x period / day) at every successful PayFunding; a checkpoint moves to it whenever the
\* owner trades on / withdraws from / closes the position.  The valuing oracles read these, not the stored
\* cumulative list / stored checkpoint, so a settlement that is not recorded, or a checkpoint that is not
\* advanced, cannot hide the funding owed from the oracle.
GCpfNextC(aux, S, e, T, calc) ==
  [v \in Vs(T) |->
     IF ~(v \in DOMAIN aux.gcpf) THEN Cpf(T, v)
     ELSE IF EngOp(e, "pay_funding") /\ e.res.ok /\ e.tx.a.vamm = v
     THEN LET vm == GW(aux.gsnaps, S).vamm[v]
              tv == TwapPrice(vm, S.blk.t, vm.cfg.twapint)
              to == OracleTwap(S, v, vm.cfg.twapint)
          IN IF ~calc \/ Bad(tv) \/ Bad(to) THEN aux.gcpf[v] + (Cpf(T, v) - Cpf(S, v))     \* no verdict possible: follow the record
             ELSE aux.gcpf[v] + SDiv((tv - to) * vm.cfg.period, ONE_DAY)
     ELSE aux.gcpf[v]]
GCpfNext(aux, S, e, T) == GCpfNextC(aux, S, e, T, TRUE)
GF(gcpf, chk, W) ==
  [W EXCEPT !.eng.vmap = [v \in DOMAIN W.eng.vmap |->
                            IF v \in DOMAIN gcpf THEN [W.eng.vmap[v] EXCEPT !.cpf = <<gcpf[v]>>] ELSE W.eng.vmap[v]],
            !.eng.pos = [v \in DOMAIN W.eng.pos |-> [t \in DOMAIN W.eng.pos[v] |->
                            IF v \in DOMAIN chk /\ t \in DOMAIN chk[v] /\ W.eng.pos[v][t].exists
                            THEN [W.eng.pos[v][t] EXCEPT !.lupf = chk[v][t]] ELSE W.eng.pos[v][t]]]]

(***************************************************************************)
(* Ghost state carried along a history.                                    *)
(***************************************************************************)
AuxInit(W) ==
  [y0     |-> [v \in Vs(W) |-> W.vamm[v].st.y + W.vamm[v].st.total],
   gate   |-> GateInit(W),
   seen   |-> [v \in Vs(W) |-> {<<W.vamm[v].st.total, W.vamm[v].st.x>>}],
   liqblk |-> [v \in Vs(W) |-> 0],
   lastq  |-> [ok |-> FALSE, c |-> "", q |-> "", dir |-> "", amount |-> 0, val |-> 0],
   upd    |-> [v \in Vs(W) |-> [t \in Traders |-> IF W.eng.pos[v][t].exists THEN W.eng.pos[v][t].blk ELSE 0]],
   subs   |-> [k \in DOMAIN W.feed.rounds |->
                 LET rs == W.feed.rounds[k] IN SelectSeq(rs, LAMBDA r : r.id >= 1)],
   chk    |-> [v \in Vs(W) |-> [t \in Traders |-> W.eng.pos[v][t].lupf]],
   roles  |-> W.given,
   gcpf   |-> [v \in Vs(W) |-> Cpf(W, v)],
   gsnaps |-> [v \in Vs(W) |-> W.vamm[v].snaps],
   open0  |-> [v \in Vs(W) |-> [set |-> FALSE, x |-> W.vamm[v].st.x, y |-> W.vamm[v].st.y]]]

\* block of the last successful update of each trader's position on each vAMM: an open / close of
\* their own (also one that removes the position) or a liquidation naming them
UpdNext(upd, S, e, T) ==
  [v \in Vs(T) |-> [t \in Traders |->
     IF e.kind = "tx" /\ e.tx.c = "engine" /\ e.res.ok /\ e.tx.s = t
        /\ e.tx.m \in {"open_position", "close_position"} /\ e.tx.a.vamm = v
     THEN S.blk.h
     ELSE IF EngOp(e, "liquidate") /\ e.res.ok /\ e.tx.a.vamm = v /\ e.tx.a.trader = t
     THEN S.blk.h
     ELSE upd[v][t]]]

AuxNextC(aux, S, e, T, calc) ==
  [y0     |-> aux.y0,
   gate   |-> GateNext(aux.gate, S, e, T),
   roles  |-> RolesNext(aux.roles, S, e, T),
   gsnaps |-> GSnapsNext(aux.gsnaps, S, e, T),
   open0  |-> IF e.kind = "block" /\ T.blk.h > S.blk.h
              THEN [v \in Vs(T) |-> [set |-> TRUE, x |-> S.vamm[v].st.x, y |-> S.vamm[v].st.y]]
              ELSE aux.open0,
   seen   |-> [v \in Vs(T) |->
                 LET tot == T.vamm[v].st.total
                     x   == T.vamm[v].st.x
                     same == {p \in aux.seen[v] : p[1] = tot}
                 IN IF same = {} THEN aux.seen[v] \cup {<<tot, x>>}
                    ELSE LET old == CHOOSE p \in same : TRUE
                         IN IF x > old[2] THEN (aux.seen[v] \ {old}) \cup {<<tot, x>>} ELSE aux.seen[v]],
   liqblk |-> [v \in Vs(T) |-> IF EngOp(e, "liquidate") /\ e.res.ok /\ e.tx.a.vamm = v
                               THEN S.blk.h ELSE aux.liqblk[v]],
   lastq  |-> IF e.kind = "query" /\ IsVammName(e.tx.c) /\ e.tx.m \in {"input_amount", "output_amount"} /\ e.res.ok
              THEN [ok |-> TRUE, c |-> e.tx.c, q |-> e.tx.m, dir |-> e.tx.a.dir, amount |-> e.tx.a.amount, val |-> e.res.val]
              ELSE [ok |-> FALSE, c |-> "", q |-> "", dir |-> "", amount |-> 0, val |-> 0],
   upd    |-> UpdNext(aux.upd, S, e, T),
   chk    |-> [v \in Vs(T) |-> [t \in Traders |->
                 IF e.kind = "tx" /\ e.tx.c = "engine" /\ e.res.ok /\ e.tx.s = t
                    /\ e.tx.m \in {"open_position", "close_position", "withdraw_margin"} /\ e.tx.a.vamm = v
                 THEN (IF T.eng.pos[v][t].exists THEN GCpfNextC(aux, S, e, T, calc)[v] ELSE 0)
                 ELSE IF EngOp(e, "liquidate") /\ e.res.ok /\ e.tx.a.vamm = v /\ e.tx.a.trader = t /\ ~T.eng.pos[v][t].exists
                 THEN 0
                 ELSE aux.chk[v][t]]],
   gcpf   |-> GCpfNextC(aux, S, e, T, calc),
   subs   |-> IF Op(e, "feed", "append_price") /\ e.res.ok /\ S.feed.kind = "real" /\ e.tx.a.key \in DOMAIN aux.subs
              THEN [aux.subs EXCEPT ![e.tx.a.key] = Append(@, [id |-> Len(@) + 1, price |-> e.tx.a.price, t |-> e.tx.a.t])]
              ELSE IF Op(e, "feed", "append_multiple_price") /\ e.res.ok /\ S.feed.kind = "real" /\ e.tx.a.key \in DOMAIN aux.subs
              THEN LET old == aux.subs[e.tx.a.key]
                       n == Len(e.tx.a.prices)
                   IN [aux.subs EXCEPT ![e.tx.a.key] =
                          old \o [i \in 1..n |-> [id |-> Len(old) + i, price |-> e.tx.a.prices[i], t |-> e.tx.a.ts[i]]]]
              ELSE aux.subs]
AuxNext(aux, S, e, T) == AuxNextC(aux, S, e, T, TRUE)
\* on a step whose numbers TLC cannot multiply no predicate is judged, but the ghosts still follow the record
\* (none of the remaining updates needs a product)
AuxNextUnsafe(aux, S, e, T) == AuxNextC(aux, S, e, T, FALSE)


----------------------------------------------------------------------------
(***************************************************************************)
(* What the predicates see.  RawIds: the recorded states as they are.        *)
(* Everything else: the recorded states with the three ghost projections     *)
(* substituted -- reserve snapshots (GW), cumulative premium fraction and     *)
(* checkpoints (GF), position direction from the sign of the size (NormW).    *)
(* C11 keeps the stored fraction / checkpoints of the POST-state (they are    *)
(* what its clauses judge) and reads the ghost ones in the pre-state.         *)
(***************************************************************************)
PreView(aux, S) == NormW(GF(aux.gcpf, aux.chk, GW(aux.gsnaps, S)))
PostView(id, aux, S, e, T) ==
  LET a2 == AuxNext(aux, S, e, T)
  IN IF id = "C11" THEN NormW(GW(a2.gsnaps, T)) ELSE NormW(GF(a2.gcpf, a2.chk, GW(a2.gsnaps, T)))
Violations(id, S, e, T, aux) ==
  IF id \in RawIds THEN ViolationsRaw(id, S, e, T, aux)
  ELSE ViolationsRaw(id, PreView(aux, S), e, PostView(id, aux, S, e, T), aux)
Antecedents(id, S, e, T, aux) ==
  IF id \in RawIds THEN AntecedentsRaw(id, S, e, T, aux)
  ELSE AntecedentsRaw(id, PreView(aux, S), e, PostView(id, aux, S, e, T), aux)
=============================================================================
