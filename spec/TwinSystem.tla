----------------------------- MODULE TwinSystem -----------------------------
(***************************************************************************)
(* Bounded twin model for C13: two deployments of the mirror specification   *)
(* (cw20 and native collateral) stepped in lock-step.  The native call       *)
(* attaches exactly what the cw20 execution pulled from the sender.          *)
(***************************************************************************)
EXTENDS TwinProps, Conf, Json

CONSTANTS InitC, InitN, TxAlphabet, Gaps, MaxDepth, Known

VARIABLES Wc, Wn, hist, synced
vars == <<Wc, Wn, hist, synced>>
View == <<Wc, Wn, synced>>

Init == Wc = InitC /\ Wn = InitN /\ hist = <<>> /\ synced = TRUE

Ev(tx, r) == [kind |-> "tx", tx |-> tx, res |-> [ok |-> r.ok, err |-> r.err, val |-> 0],
              calls |-> r.ctx.calls, xfers |-> r.ctx.xfers, swaps |-> r.ctx.swaps]
Pulled(tx, r) ==
  IF ~r.ok THEN 0
  ELSE LET idx == {i \in 1..Len(r.ctx.xfers) : r.ctx.xfers[i].ok /\ r.ctx.xfers[i].from = tx.s
                                               /\ r.ctx.xfers[i].kind = "transfer_from"}
       IN SumOver([i \in idx |-> r.ctx.xfers[i].amt], idx)

DoTx(tx) ==
  LET rc == RunTx(Wc, tx, 0)
      txn == [tx EXCEPT !.funds = Pulled(tx, rc)]
      rn == RunTx(Wn, txn, 0)
      bad == {t \in TwinBad(Wc, Wn, Ev(tx, rc), Ev(txn, rn), rc.W, rn.W) :
                TwinFindingOf(t, tx, Wc, Wn, Ev(tx, rc), Ev(txn, rn), rc.W, rn.W) \notin Known}
  IN /\ synced
     /\ rc.err # "over" /\ rn.err # "over" /\ SafeWorld(rc.W) /\ SafeWorld(rn.W)
     /\ Wc' = rc.W /\ Wn' = rn.W
     /\ hist' = Append(hist, [k |-> "tx", c |-> tx.c, m |-> tx.m, s |-> tx.s, a |-> tx.a, funds |-> 0, fault |-> 0])
     /\ synced' = (rc.ok = rn.ok /\ SameMarket(rc.W, rn.W))
     /\ (bad = {} \/ (PrintT(<<"MCVIOL", CHOOSE t \in bad : TRUE, ToJson(hist')>>) /\ FALSE))

DoBlock(dt) ==
  /\ Wc' = AdvanceBlock(Wc, 1, dt) /\ Wn' = AdvanceBlock(Wn, 1, dt)
  /\ hist' = Append(hist, [k |-> "block", dh |-> 1, dt |-> dt])
  /\ UNCHANGED synced

Next == /\ Len(hist) < MaxDepth
        /\ \/ \E tx \in TxAlphabet : DoTx(tx)
           \/ \E dt \in Gaps : DoBlock(dt)

Spec == Init /\ [][Next]_vars
=============================================================================
