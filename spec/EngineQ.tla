------------------------------- MODULE EngineQ -------------------------------
(***************************************************************************)
(* Query layer of contracts/margined_engine (query.rs, utils.rs) over a     *)
(* whole deployment W = [blk, vamm, eng, ifund, fpool, feed, bal, allow].   *)
(* These operators are the *independent oracles* of the property           *)
(* predicates: they are evaluated by TLC on raw recorded state, never      *)
(* taken from the implementation's answers.                                 *)
(***************************************************************************)
EXTENDS Vamm, PriceFeed

EmptyPos == [exists |-> FALSE, dir |-> "add", size |-> 0, margin |-> 0, notional |-> 0,
             lupf |-> 0, blk |-> 0]

Cpf(W, v) == LET c == W.eng.vmap[v].cpf IN IF c = <<>> THEN 0 ELSE Last(c)

OraclePrice(W, v) == UnderlyingPrice(W.feed, W.vamm[v].cfg.base)
OracleTwap(W, v, interval) == UnderlyingTwap(W.feed, W.vamm[v].cfg.base, W.blk.t, interval)

IsRegistered(W, v) == \E i \in 1..Len(W.ifund.vamms) : W.ifund.vamms[i] = v

(* utils.rs::get_position_notional_unrealized_pnl: [ok, notional, pnl] *)
PnL(W, v, p, opt) ==
  IF p.size = 0 THEN [ok |-> TRUE, notional |-> 0, pnl |-> 0, over |-> FALSE]
  ELSE LET vm == W.vamm[v]
           n  == CASE opt = "twap"   -> OutputTwap(vm, W.blk.t, p.dir, Abs(p.size))
                   [] opt = "spot"   -> OutputPrice(vm.cfg.D, p.dir, Abs(p.size), vm.st.x, vm.st.y)
                   [] opt = "oracle" -> LET op == OraclePrice(W, v)
                                        IN IF Bad(op) THEN FAIL
                                           ELSE LET m == SafeMul(op, Abs(p.size))
                                                IN IF Bad(m) THEN m ELSE m \div W.eng.cfg.D
       IN IF Bad(n) THEN [ok |-> FALSE, notional |-> 0, pnl |-> 0, over |-> n = OVER]
          ELSE IF n > AmtCap \/ p.notional > AmtCap
          THEN [ok |-> FALSE, notional |-> 0, pnl |-> 0, over |-> TRUE]
          ELSE [ok |-> TRUE, notional |-> n, over |-> FALSE,
                pnl |-> IF p.dir = "add" THEN n - p.notional ELSE p.notional - n]

FundingOwed(W, v, p) == SDiv((Cpf(W, v) - p.lupf) * p.size, W.eng.cfg.D)

(* utils.rs::calc_remain_margin_with_funding_payment *)
RemainMargin(W, v, p, delta) ==
  LET f  == FundingOwed(W, v, p)
      rm == delta - f + p.margin
  IN [funding |-> f, margin |-> IF rm < 0 THEN 0 ELSE rm, bad |-> IF rm < 0 THEN -rm ELSE 0,
      cpf |-> Cpf(W, v)]

\* the PnL the engine uses for margin decisions: spot unless |spot| > |twap|
ChosenPnL(W, v, p) ==
  LET s == PnL(W, v, p, "spot")
      t == PnL(W, v, p, "twap")
  IN IF ~s.ok \/ ~t.ok THEN [ok |-> FALSE, notional |-> 0, pnl |-> 0, over |-> s.over \/ t.over]
     ELSE IF Abs(s.pnl) > Abs(t.pnl) THEN t ELSE s

RatioFrom(W, v, p, q) ==
  IF ~q.ok THEN FAIL
  ELSE LET rm == RemainMargin(W, v, p, q.pnl)
       IN IF q.notional = 0 THEN FAIL               \* Integer division by zero panics
          ELSE SDiv((rm.margin - rm.bad) * W.eng.cfg.D, q.notional)

(* query.rs::query_margin_ratio; FAIL when a sub-query fails.  The result  *)
(* is a signed ratio; FAIL = -1 could collide with a genuine ratio of -1,  *)
(* so the pair form is used.                                               *)
RatioOver(W, v, p, q) ==
  LET rm == RemainMargin(W, v, p, q.pnl) IN ~MulOK(rm.margin - rm.bad, W.eng.cfg.D)

MarginRatio(W, v, t) ==
  LET p == W.eng.pos[v][t]
  IN IF p.size = 0 THEN [ok |-> TRUE, val |-> 0, over |-> FALSE]
     ELSE LET q == ChosenPnL(W, v, p)
          IN IF ~q.ok \/ q.notional = 0 THEN [ok |-> FALSE, val |-> 0, over |-> q.over]
             ELSE IF RatioOver(W, v, p, q) THEN [ok |-> FALSE, val |-> 0, over |-> TRUE]
             ELSE [ok |-> TRUE, val |-> RatioFrom(W, v, p, q), over |-> FALSE]

(* utils.rs::get_margin_ratio_calc_option(Oracle) *)
OracleRatio(W, v, t) ==
  LET p == W.eng.pos[v][t]
  IN IF p.size = 0 THEN [ok |-> TRUE, val |-> 0, over |-> FALSE]
     ELSE LET q == PnL(W, v, p, "oracle")
          IN IF ~q.ok \/ q.notional = 0 THEN [ok |-> FALSE, val |-> 0, over |-> q.over]
             ELSE IF RatioOver(W, v, p, q) THEN [ok |-> FALSE, val |-> 0, over |-> TRUE]
             ELSE [ok |-> TRUE, val |-> RatioFrom(W, v, p, q), over |-> FALSE]

(* the ratio `liquidate` compares with the maintenance ratio *)
LiqRatio(W, v, t) ==
  LET mr == MarginRatio(W, v, t)
      os == IsOverSpread(W.vamm[v], OraclePrice(W, v))
  IN IF ~mr.ok \/ ~os.ok THEN [ok |-> FALSE, val |-> 0, oracle |-> FALSE, over |-> mr.over]
     ELSE IF os.val
          THEN LET orr == OracleRatio(W, v, t)
               IN IF ~orr.ok THEN [ok |-> FALSE, val |-> 0, oracle |-> FALSE, over |-> orr.over]
                  ELSE IF orr.val - mr.val > 0 THEN [ok |-> TRUE, val |-> orr.val, oracle |-> TRUE, over |-> FALSE]
                  ELSE [ok |-> TRUE, val |-> mr.val, oracle |-> FALSE, over |-> FALSE]
          ELSE [ok |-> TRUE, val |-> mr.val, oracle |-> FALSE, over |-> FALSE]

(* query.rs::query_trader_position_with_funding_payment (margin only) *)
MarginWithFunding(W, v, p) ==
  LET f == IF p.size # 0 THEN -FundingOwed(W, v, p) ELSE 0
      m == p.margin + f
  IN IF m >= 0 THEN m ELSE 0

(* query.rs::query_free_collateral *)
FreeCollateral(W, v, t) ==
  LET p0 == W.eng.pos[v][t]
      p  == [p0 EXCEPT !.margin = MarginWithFunding(W, v, p0)]
      q  == ChosenPnL(W, v, p)
  IN IF ~q.ok THEN [ok |-> FALSE, val |-> 0, over |-> q.over]
     ELSE LET account == q.pnl + p.margin
              minc    == IF q.pnl >= 0 THEN p.margin ELSE account
              req     == IF p.size >= 0 THEN (p.notional * W.eng.cfg.imr) \div W.eng.cfg.D
                         ELSE (q.notional * W.eng.cfg.imr) \div W.eng.cfg.D
          IN [ok |-> TRUE, val |-> minc - req, over |-> FALSE]
=============================================================================
