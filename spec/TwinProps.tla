------------------------------ MODULE TwinProps ------------------------------
(***************************************************************************)
(* C13 as a predicate over one lock-step step of twin deployments:          *)
(* (Sc, Sn) the cw20 / native states before, ec / en the two executions of  *)
(* the same operation (en attaching exactly what ec pulled from the sender), *)
(* (Tc, Tn) the states after.  Used by trace validation (Twin.tla) and by    *)
(* the bounded twin model (TwinSystem.tla).                                  *)
(***************************************************************************)
EXTENDS Findings

\* what must agree between the twins
SameMarket(A, B) ==
  /\ \A v \in DOMAIN A.vamm : A.vamm[v].st = B.vamm[v].st /\ A.vamm[v].snaps = B.vamm[v].snaps
  /\ A.eng.pos = B.eng.pos
  /\ A.eng.st = B.eng.st
  /\ A.eng.vmap = B.eng.vmap
Parties == {"tr1", "tr2", "tr3", "liq", "engine", "ifund", "fpool", "owner", "stranger"}
Delta(S, T, a) == T.bal[a] - S.bal[a]

TwinBad(Sc, Sn, ec, en, Tc, Tn) ==
  Tag(ec.res.ok = en.res.ok, "C13.ok")
  \cup Tag(SameMarket(Tc, Tn), "C13.state")
  \cup Tag(\A a \in Parties : Delta(Sc, Tc, a) = Delta(Sn, Tn, a), "C13.balances")

\* known findings (see known_findings.json): F3 native reversal-with-reopen funds accounting,
\* F11 native close / partial close pays the trading fees out of the vault
TwinFindingOf(tag, tx, Sc, Sn, ec, en, Tc, Tn) ==
  LET t == tx.s
  IN IF tx.c = "engine" /\ tx.m = "close_position" /\ tag = "C13.balances" /\ ec.res.ok /\ en.res.ok
        /\ SameMarket(Tc, Tn)
        \* the vault pays the fees whatever was attached: the twins differ by exactly the part of the fees the
        \* native caller did not attach (all of them, or - a wallet smaller than the gross amount the cw20 twin
        \* pulled after paying out - the shortfall), moved from the vault to the trader
        /\ LET fees == Sent(ec, t, "ifund") + Sent(ec, t, "fpool")
               d    == fees - en.tx.funds
           IN fees > 0 /\ d > 0 /\ Delta(Sn, Tn, t) = Delta(Sc, Tc, t) + d
              /\ Delta(Sn, Tn, "engine") = Delta(Sc, Tc, "engine") - d
              /\ \A a \in Parties \ {t, "engine"} : Delta(Sc, Tc, a) = Delta(Sn, Tn, a)
     THEN "F11"
     ELSE IF tx.c = "engine" /\ tx.m = "close_position" /\ ec.res.ok /\ ~en.res.ok
             /\ en.res.err = "transfer_failure" /\ Sent(ec, t, "ifund") + Sent(ec, t, "fpool") > 0
             /\ \E i \in 1..Len(en.xfers) : en.xfers[i].from = "engine" /\ ~en.xfers[i].ok
                                              /\ en.xfers[i].to \in {"ifund", "fpool"}
     THEN "F11"
     ELSE IF tx.c = "engine" /\ tx.m = "open_position" /\ ec.res.ok /\ Len(ec.swaps) = 2
             /\ ~en.res.ok /\ en.res.err = "funds"
     THEN "F3"
     ELSE ""
=============================================================================
