------------------------------- MODULE VmStep -------------------------------
(***************************************************************************)
(* The message VM as a SMALL-STEP machine: the dispatch semantics of        *)
(* cw-multi-test 0.13.4 (wasm.rs::execute_submsg / process_response) with   *)
(* one transition per contract entry (execute or reply) -- the granularity  *)
(* at which the harness's probes log the real contracts.  Vm.tla gives the   *)
(* same semantics as one recursive function (RunTx); this module makes the   *)
(* intermediate configurations first-class so that                           *)
(*   - TLC can visit every micro-state of a transaction (bounded model       *)
(*     SystemStep.tla) and evaluate C08's invariants *inside* transactions,  *)
(*   - the two formulations can be checked against each other (RunSmall =    *)
(*     RunTx on every explored input: refinement within bounds),             *)
(*   - the recorded call sequence of a real transaction can be validated     *)
(*     entry by entry (Conf.tla: drift tag "calls").                         *)
(*                                                                         *)
(* A configuration Kf = [W, stack, status, ctx, err]:                         *)
(*   W      the live storage of all contracts + balances                     *)
(*   stack  frames, innermost last.  A frame is one message in execution:    *)
(*            owner  the contract whose responses' messages are queued       *)
(*            from   who sent the message                                    *)
(*            m      the message itself (to, op, a, funds, id, on)           *)
(*            queue  messages still to dispatch on behalf of `owner`         *)
(*                   (its handler's, then -- prepended -- its replies')      *)
(*            snap   W when the message started: the transactional cache     *)
(*                   that is dropped if the message fails                    *)
(*            data   what the handler returned (read by the parent's reply)  *)
(*   status "run"  : dispatching                                             *)
(*          "fail" : the message of the innermost frame has failed and is    *)
(*                   being unwound                                           *)
(*          "ok" / "failed" : the transaction is over                        *)
(***************************************************************************)
EXTENDS Vm

Frame(owner, from, m, queue, snap, data) ==
  [owner |-> owner, from |-> from, m |-> m, queue |-> queue, snap |-> snap, data |-> data]

TopMsg(tx) == [to |-> tx.c, op |-> tx.m, a |-> tx.a, funds |-> tx.funds, id |-> 0, on |-> "never"]
RootMsg == [to |-> "", op |-> "tx", a |-> [nil |-> 0], funds |-> 0, id |-> 0, on |-> "never"]

(* begin a transaction: attached funds move first (not a counted call); the root frame is the
   sender's "response" holding the one top-level message; its snapshot is the pre-state *)
Begin(W, tx, fault) ==
  IF tx.funds > 0 /\ W.bal[tx.s] < tx.funds
  THEN [W |-> W, stack |-> <<>>, status |-> "failed", ctx |-> Ctx0(fault), err |-> "funds"]
  ELSE LET W1 == IF tx.funds > 0 THEN [W EXCEPT !.bal[tx.s] = @ - tx.funds, !.bal[tx.c] = @ + tx.funds] ELSE W
       IN [W |-> W1, stack |-> <<Frame(tx.s, "", RootMsg, <<TopMsg(tx)>>, W, NoData)>>,
           status |-> "run", ctx |-> Ctx0(fault), err |-> ""]

Top(Kf) == Kf.stack[Len(Kf.stack)]
Pop(Kf) == SubSeq(Kf.stack, 1, Len(Kf.stack) - 1)
SetTop(stack, f) == [stack EXCEPT ![Len(stack)] = f]

(* the message `sm`, sent by the owner of the innermost frame of `stack`, has failed with `err`
   (its own writes are already dropped): reply(Err) if its sender asked for one *)
FailMsg(Kf, stack, W, ctx, sm, err) ==
  LET p == stack[Len(stack)]
  IN IF sm.on \in {"always", "error"}
     THEN LET rp == ReplyOf(W, p.owner, sm.id, FALSE, NoData)
              cr == ReplyCall(ctx, p.owner, sm.id, rp.ok)
          IN IF rp.ok        \* a swallowed error: the sender continues with the reply's messages
             THEN [Kf EXCEPT !.W = rp.W, !.stack = SetTop(stack, [p EXCEPT !.queue = rp.msgs \o @]),
                            !.status = "run", !.ctx = cr, !.err = ""]
             ELSE [Kf EXCEPT !.W = W, !.stack = stack, !.status = "fail", !.ctx = cr,
                            !.err = IF err = "over" THEN "over" ELSE IF sm.id = 9 THEN "transfer_failure" ELSE "other"]
     ELSE [Kf EXCEPT !.W = W, !.stack = stack, !.status = "fail", !.ctx = ctx, !.err = err]

(* ---- the four kinds of micro-step ---- *)

(* Dispatch: the next queued message of the innermost frame enters its contract *)
Dispatch(Kf) ==
  LET f == Top(Kf)
      sm == Head(f.queue)
      st1 == SetTop(Kf.stack, [f EXCEPT !.queue = Tail(@)])
      ctx1 == [Kf.ctx EXCEPT !.cnt = @ + 1]
      n == ctx1.cnt
      W == Kf.W
  IN IF ctx1.fault = n
     THEN \* injected failure: the call returns an error instead of running
          LET c == CallM([ctx1 EXCEPT !.fired = TRUE], f.owner, sm, FALSE, TRUE)
              c2 == IF sm.to \in {"bank", "token"} THEN [c EXCEPT !.xfers = Append(@, XferOf(W, f.owner, sm, n, FALSE))] ELSE c
          IN FailMsg(Kf, st1, W, c2, sm, "injected")
     ELSE IF sm.to \in {"bank", "token"}
     THEN LET r == LedgerExec(W, f.owner, sm)
              c == [CallM(ctx1, f.owner, sm, r.ok, FALSE) EXCEPT !.xfers = Append(@, XferOf(W, f.owner, sm, n, r.ok))]
          IN IF r.ok THEN [Kf EXCEPT !.W = r.W, !.ctx = c,
                                    !.stack = Append(st1, Frame(sm.to, f.owner, sm, <<>>, W, NoData))]
             ELSE FailMsg(Kf, st1, W, c, sm, "ledger")
     ELSE LET h == Handle(W, f.owner, sm)
          IN IF ~h.ok THEN FailMsg(Kf, st1, W, CallM(ctx1, f.owner, sm, FALSE, FALSE), sm, h.err)
             ELSE LET c2 == CallM(ctx1, f.owner, sm, TRUE, FALSE)
                      c3 == IF sm.op \in {"swap_input", "swap_output"}
                            THEN [c2 EXCEPT !.swaps = Append(@, [n |-> n, vamm |-> sm.to,
                                       type |-> IF sm.op = "swap_input" THEN "input" ELSE "output", dir |-> sm.a.dir,
                                       quote |-> IF sm.op = "swap_input" THEN h.data.input ELSE h.data.output,
                                       base |-> IF sm.op = "swap_input" THEN h.data.output ELSE h.data.input])]
                            ELSE c2
                  IN [Kf EXCEPT !.W = h.W, !.ctx = c3,
                               !.stack = Append(st1, Frame(sm.to, f.owner, sm, h.msgs, W, h.data))]

(* Return: the innermost message has nothing left to dispatch: it succeeded; its cache is
   committed into the sender's, and reply(Ok) runs in the sender if it asked for one *)
Return(Kf) ==
  LET f == Top(Kf)
      st1 == Pop(Kf)
  IN IF st1 = <<>> THEN [Kf EXCEPT !.W = StripTmpd(Kf.W), !.stack = <<>>, !.status = "ok"]
     ELSE LET p == st1[Len(st1)]
          IN IF f.m.on = "always"
             THEN LET rp == ReplyOf(Kf.W, p.owner, f.m.id, TRUE, f.data)
                      cr == ReplyCall(Kf.ctx, p.owner, f.m.id, rp.ok)
                  IN IF ~rp.ok THEN [Kf EXCEPT !.stack = st1, !.status = "fail", !.ctx = cr, !.err = rp.err]
                     ELSE [Kf EXCEPT !.W = rp.W, !.stack = SetTop(st1, [p EXCEPT !.queue = rp.msgs \o @]), !.ctx = cr]
             ELSE [Kf EXCEPT !.stack = st1]

(* Unwind: the innermost message failed: drop its cache, tell its sender *)
Unwind(Kf) ==
  LET f == Top(Kf)
      st1 == Pop(Kf)
  IN IF st1 = <<>> THEN [Kf EXCEPT !.W = f.snap, !.stack = <<>>, !.status = "failed"]
     ELSE FailMsg(Kf, st1, f.snap, Kf.ctx, f.m, Kf.err)

Running(Kf) == Kf.status \in {"run", "fail"}
MicroStep(Kf) ==
  IF Kf.status = "fail" THEN Unwind(Kf)
  ELSE IF Top(Kf).queue = <<>> THEN Return(Kf)
  ELSE Dispatch(Kf)

RECURSIVE RunSmall(_)
RunSmall(Kf) == IF Running(Kf) THEN RunSmall(MicroStep(Kf)) ELSE Kf

(* the big-step result of Vm.tla, in the same shape *)
SmallResult(Kf) == [ok |-> Kf.status = "ok", W |-> Kf.W, ctx |-> Kf.ctx, err |-> Kf.err]
BigResult(W, tx, fault) == LET r == RunTx(W, tx, fault) IN [ok |-> r.ok, W |-> r.W, ctx |-> r.ctx, err |-> r.err]
Refines(W, tx, fault) == SmallResult(RunSmall(Begin(W, tx, fault))) = BigResult(W, tx, fault)

(***************************************************************************)
(* Invariants of micro-states (checked by TLC on SystemStep.tla).           *)
(***************************************************************************)
Depth(Kf) == Len(Kf.stack)
\* the outermost cache is the pre-state: whatever happens inside, a failed transaction restores it
RootSnapIs(Kf, pre) == Kf.stack = <<>> \/ Kf.stack[1].snap = pre
\* an engine reply never runs without the in-flight record its handler left (no reply out of thin air)
EngineFrames(Kf) == {i \in 1..Len(Kf.stack) : Kf.stack[i].owner = "engine"}
\* a vAMM swap sent by the engine is in flight only while tmp-swap exists
SwapInFlight(Kf) == \E i \in 1..Len(Kf.stack) : Kf.stack[i].m.op \in {"swap_input", "swap_output"} /\ Kf.stack[i].from = "engine"
SwapNeedsTmp(Kf) == (Kf.status = "run" /\ SwapInFlight(Kf)) => Kf.W.eng.tmp.swap
\* nothing but the engine, the fund and the fee pool ever sends sub-messages
SendersOK(Kf) == \A i \in 2..Len(Kf.stack) : Kf.stack[i].from \in {"engine", "ifund", "fpool"} \/ i = 2
=============================================================================
