-------------------------------- MODULE Twin --------------------------------
(***************************************************************************)
(* C13: a cw20-collateral deployment and an otherwise identical native-      *)
(* collateral deployment run the same history in lock-step; the native call *)
(* attaches exactly what the cw20 deployment pulled from the caller.         *)
(* Each recorded step carries both executions (cw, nat).                     *)
(***************************************************************************)
EXTENDS Findings, Json, IOUtils

Rec == ndJsonDeserialize(IOEnv.TRACE)

\* what must agree between the twins
SameMarket(A, B) ==
  /\ \A v \in DOMAIN A.vamm : A.vamm[v].st = B.vamm[v].st /\ A.vamm[v].snaps = B.vamm[v].snaps
  /\ A.eng.pos = B.eng.pos
  /\ A.eng.st = B.eng.st
  /\ A.eng.vmap = B.eng.vmap
Parties == {"tr1", "tr2", "tr3", "liq", "engine", "ifund", "fpool", "owner", "stranger"}
Delta(S, T, a) == T.bal[a] - S.bal[a]

V_C13(l) ==
  LET e == Rec[l + 1]
      Sc == Rec[l].cw.post
      Sn == Rec[l].nat.post
      Tc == e.cw.post
      Tn == e.nat.post
  IN Tag(e.cw.res.ok = e.nat.res.ok, "C13.ok")
     \cup Tag(SameMarket(Tc, Tn), "C13.state")
     \cup Tag(\A a \in Parties : Delta(Sc, Tc, a) = Delta(Sn, Tn, a), "C13.balances")

\* known findings (see known_findings.json): F3 native reversal-with-reopen funds accounting,
\* F11 native close / partial close pays the trading fees out of the vault
TwinFinding(tag, l) ==
  LET e == Rec[l + 1]
      Sc == Rec[l].cw.post
      Sn == Rec[l].nat.post
      Tc == e.cw.post
      Tn == e.nat.post
      t == e.tx.s
  IN IF e.tx.c = "engine" /\ e.tx.m = "close_position" /\ tag = "C13.balances" /\ e.cw.res.ok /\ e.nat.res.ok
        /\ SameMarket(Tc, Tn)
        /\ LET fees == Sent(e.cw, t, "ifund") + Sent(e.cw, t, "fpool")
           IN fees > 0 /\ Delta(Sn, Tn, t) = Delta(Sc, Tc, t) + fees
              /\ Delta(Sn, Tn, "engine") = Delta(Sc, Tc, "engine") - fees
              /\ \A a \in Parties \ {t, "engine"} : Delta(Sc, Tc, a) = Delta(Sn, Tn, a)
     THEN "F11"
     ELSE IF e.tx.c = "engine" /\ e.tx.m = "close_position" /\ e.cw.res.ok /\ ~e.nat.res.ok
             /\ e.nat.res.err = "transfer_failure" /\ Sent(e.cw, t, "ifund") + Sent(e.cw, t, "fpool") > 0
             /\ \E i \in 1..Len(e.nat.xfers) : e.nat.xfers[i].from = "engine" /\ ~e.nat.xfers[i].ok
                                                  /\ e.nat.xfers[i].to \in {"ifund", "fpool"}
     THEN "F11"
     ELSE IF e.tx.c = "engine" /\ e.tx.m = "open_position" /\ e.cw.res.ok /\ Len(e.cw.swaps) = 2
             /\ ~e.nat.res.ok /\ e.nat.res.err = "funds"
     THEN "F3"
     ELSE ""

VARIABLES l, hits, synced
TInit == l = 1 /\ Rec[1].kind = "reset" /\ hits = [t \in {"events"} |-> 1] /\ synced = TRUE
Bump(h, tags) == [t \in (DOMAIN h) \cup tags |->
                    (IF t \in DOMAIN h THEN h[t] ELSE 0) + (IF t \in tags THEN 1 ELSE 0)]
Ante(e) ==
  IF e.kind = "tx" /\ e.tx.c = "engine"
  THEN (IF e.cw.res.ok THEN {e.tx.m, "both_run"} ELSE {"failed"})
       \cup (IF e.cw.res.ok /\ Len(e.cw.swaps) = 2 THEN {"reversal"} ELSE {})
       \cup (IF e.cw.res.ok /\ e.funds > 0 THEN {"funds_attached"} ELSE {})
       \cup (IF e.cw.res.ok /\ (e.cw.post.bal["fpool"] # Rec[1].cw.post.bal["fpool"]) THEN {"with_fees"} ELSE {})
  ELSE {}
TNext ==
  /\ l < Len(Rec)
  /\ l' = l + 1
  /\ LET e == Rec[l + 1]
     IN IF e.kind = "reset" THEN hits' = Bump(hits, {"events", "scenarios"}) /\ synced' = TRUE
        ELSE IF ~synced
        THEN \* the twins diverged earlier in this history (already reported): nothing left to compare
             hits' = Bump(hits, {"events", "after_divergence"}) /\ synced' = FALSE
        ELSE LET bad == V_C13(l)
             IN /\ \A t \in bad : PrintT(<<"VIOL", l + 1, e.scn, e.i, t, TwinFinding(t, l)>>)
                /\ hits' = Bump(hits, Ante(e) \cup {"events"})
                /\ synced' = (e.cw.res.ok = e.nat.res.ok /\ SameMarket(e.cw.post, e.nat.post))
  /\ (l' = Len(Rec)) => PrintT(<<"HITS", ToJson(hits')>>)
TSpec == TInit /\ [][TNext]_<<l, hits, synced>>
TAccepted == TLCGet("stats").diameter = Len(Rec)
             \/ (PrintT(<<"REJECTED", TLCGet("stats").diameter, Len(Rec)>>) /\ FALSE)
=============================================================================
