-------------------------------- MODULE Twin --------------------------------
(***************************************************************************)
(* C13: a cw20-collateral deployment and an otherwise identical native-      *)
(* collateral deployment run the same history in lock-step; the native call *)
(* attaches exactly what the cw20 deployment pulled from the caller.         *)
(* Each recorded step carries both executions (cw, nat).                     *)
(***************************************************************************)
EXTENDS TwinProps, Json, IOUtils

Rec == ndJsonDeserialize(IOEnv.TRACE)

V_C13(l) ==
  LET e == Rec[l + 1]
  IN TwinBad(Rec[l].cw.post, Rec[l].nat.post, e.cw, e.nat, e.cw.post, e.nat.post)
TwinFinding(tag, l) ==
  LET e == Rec[l + 1]
  IN TwinFindingOf(tag, e.tx, Rec[l].cw.post, Rec[l].nat.post, e.cw, e.nat, e.cw.post, e.nat.post)

VARIABLES l, hits, synced
TInit == l = 1 /\ Rec[1].kind = "reset" /\ hits = [t \in {"events"} |-> 1] /\ synced = TRUE
Bump(h, tags) == [t \in (DOMAIN h) \cup tags |->
                    (IF t \in DOMAIN h THEN h[t] ELSE 0) + (IF t \in tags THEN 1 ELSE 0)]
Ante(e) ==
  IF e.kind = "tx" /\ e.tx.c = "engine"
  THEN (IF e.cw.res.ok THEN {e.tx.m, "both_run"} ELSE {"failed"})
       \cup (IF e.cw.res.ok /\ Len(e.cw.swaps) = 2 THEN {"reversal"} ELSE {})
       \cup (IF e.cw.res.ok /\ e.funds > 0 THEN {"funds_attached"} ELSE {})
       \cup (IF e.cw.res.ok /\ (e.cw.post.bal["fpool"] # Rec[1].cw.post.bal["fpool"]) THEN {"with_fees"} ELSE {})
  ELSE {}
TNext ==
  /\ l < Len(Rec)
  /\ l' = l + 1
  /\ LET e == Rec[l + 1]
     IN IF e.kind = "reset" THEN hits' = Bump(hits, {"events", "scenarios"}) /\ synced' = TRUE
        ELSE IF ~synced
        THEN \* the twins diverged earlier in this history (already reported): nothing left to compare
             hits' = Bump(hits, {"events", "after_divergence"}) /\ synced' = FALSE
        ELSE LET bad == V_C13(l)
             IN /\ \A t \in bad : PrintT(<<"VIOL", l + 1, e.scn, e.i, t, TwinFinding(t, l)>>)
                /\ hits' = Bump(hits, Ante(e) \cup {"events"})
                /\ synced' = (e.cw.res.ok = e.nat.res.ok /\ SameMarket(e.cw.post, e.nat.post))
  /\ (l' = Len(Rec)) => PrintT(<<"HITS", ToJson(hits')>>)
TSpec == TInit /\ [][TNext]_<<l, hits, synced>>
TAccepted == TLCGet("stats").diameter = Len(Rec)
             \/ (PrintT(<<"REJECTED", TLCGet("stats").diameter, Len(Rec)>>) /\ FALSE)
=============================================================================
