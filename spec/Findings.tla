------------------------------ MODULE Findings ------------------------------
(***************************************************************************)
(* Known-finding carve-outs.  FindingOf maps a violated clause to the id of *)
(* the recorded finding whose *specific failing condition* it matches, or   *)
(* "" when it matches none (then it is reported as a VIOLATION).  Which     *)
(* ids are actually suppressed is decided by /verif/known_findings.json;    *)
(* the conditions here are as narrow as the recorded defect.                *)
(***************************************************************************)
EXTENDS Props

FindingOf(tag, S, e, T) == ""
=============================================================================
