------------------------------ MODULE Findings ------------------------------
(***************************************************************************)
(* Known-finding carve-outs.  FindingOf maps a violated clause to the id of *)
(* the recorded finding whose *specific failing condition* it matches, or   *)
(* "" when it matches none (then it is reported as a VIOLATION).  Which     *)
(* ids are actually suppressed is decided by /verif/known_findings.json     *)
(* (status "known"); the conditions here are as narrow as the recorded      *)
(* defect, so a different violation of the same property is still reported. *)
(***************************************************************************)
EXTENDS Props

LastCall(e) == e.calls[Len(e.calls)]
AttemptedFrom(e, from) ==
  LET idx == {i \in 1..Len(e.xfers) : e.xfers[i].from = from}
  IN SumOver([i \in idx |-> e.xfers[i].amt], idx)

(* F6: partial_liquidation_reply computes margin - |realized pnl| - penalty with unsigned checked
   subtraction and fails when the stored margin cannot cover the realised share of the *spot*
   loss plus the penalty.  `liquidate` sends a position there whenever the magnitude of its
   (signed, spot-or-TWAP) margin ratio exceeds the liquidation fee and a partial ratio is set --
   in particular every position with a sufficiently negative ratio. *)
IsF6(S, e) ==
  /\ EngOp(e, "liquidate") /\ ~e.res.ok /\ S.eng.cfg.plr # 0
  /\ e.calls # <<>> /\ LastCall(e).msg = "reply_7" /\ ~LastCall(e).ok
  /\ Len(e.swaps) = 1
  /\ LET p == PosOf(S, e.tx.a.vamm, e.tx.a.trader)
         u == PnL(S, e.tx.a.vamm, p, "spot")
         out == IF e.swaps[1].type = "output" THEN e.swaps[1].quote ELSE e.swaps[1].base
         rp == Abs(SDiv(u.pnl * S.eng.cfg.plr, S.eng.cfg.D))      \* |realised share of the spot pnl|
     IN u.ok /\ \/ p.margin < rp + (out * S.eng.cfg.liqfee) \div S.eng.cfg.D
                \* ... or the same magnitude arithmetic underflows on the open notional: a long whose
                \* slice is worth more than (open notional - |pnl share|), i.e. a long in profit
                \/ (p.size > 0 /\ p.notional < out + rp)
                \/ (p.size < 0 /\ rp + p.notional < out)

(* F5: the liquidation replies size withdraw() from the vault balance read when the reply runs,
   before the transfers queued by the same reply (remaining margin / the fund's half of the
   penalty -> insurance fund) execute; the later transfer to the liquidator then exceeds what
   is left although the insurance fund could have covered it. *)
IsF5(S, e) ==
  /\ EngOp(e, "liquidate") /\ ~e.res.ok /\ e.res.err = "transfer_failure"
  /\ e.calls # <<>> /\ LastCall(e).msg = "reply_9"
  /\ AttemptedFrom(e, "engine") > S.bal["engine"] + Sent(e, "ifund", "engine")
  \* ... and one of the attempted transfers is the reply's own payment into the insurance fund
  /\ \E i \in 1..Len(e.xfers) : e.xfers[i].from = "engine" /\ e.xfers[i].to = "ifund"

(* F14: the per-trader mark of the restriction rule lives in Position.block_number; closing a
   position and a full liquidation remove the record, so a trader who closed earlier in a
   liquidation block, or who was fully liquidated in it, is not recognised and may open again. *)
IsF14(S, e) ==
  /\ EngOp(e, "open_position") /\ e.res.ok
  /\ e.tx.a.vamm \in Vs(S) /\ e.tx.s \in Traders /\ ~PosOf(S, e.tx.a.vamm, e.tx.s).exists

FindingOf(tag, S, e, T) ==
  IF tag = "C16.must_fail" /\ IsF14(S, e) THEN "F14"
  ELSE IF tag = "C07.live" /\ IsF6(S, e) THEN "F6"
  ELSE IF tag = "C07.live" /\ IsF5(S, e) THEN "F5"
  ELSE ""
=============================================================================
