-------------------------------- MODULE SInt --------------------------------
(***************************************************************************)
(* C19: packages/margined_common/src/integer.rs.                            *)
(*                                                                         *)
(* (1) A transcription of the type (sign-magnitude pair, every operator as  *)
(*     the same case split as the Rust code) over small magnitudes, which   *)
(*     TLC checks exhaustively against the mathematical integers            *)
(*     (MC_SInt).                                                           *)
(* (2) The judgement of a table of results observed on the *real* type      *)
(*     (operands up to the 128-bit boundary, as base-10^4 limb sequences):  *)
(*     every recorded result is compared with big-natural arithmetic.       *)
(***************************************************************************)
EXTENDS BigNat, FiniteSets, TLC, Json, IOUtils

----------------------------------------------------------------------------
(* signed big integers as [neg, l]; the mathematical value of a sign-magnitude pair *)
MNeg(a) == a.neg /\ ~IsZero(a.l)                 \* mathematically negative
MEq(a, b) == Eq(a.l, b.l) /\ (MNeg(a) = MNeg(b))
\* mathematical comparison: -1 / 0 / 1
MCmp(a, b) ==
  IF MNeg(a) /\ ~MNeg(b) THEN -1
  ELSE IF ~MNeg(a) /\ MNeg(b) THEN 1
  ELSE IF ~MNeg(a) THEN Cmp(a.l, b.l) ELSE Cmp(b.l, a.l)
MkS(neg, l) == [neg |-> neg /\ ~IsZero(l), l |-> Norm(l)]
MAdd(a, b) ==
  IF MNeg(a) = MNeg(b) THEN MkS(MNeg(a), Add(a.l, b.l))
  ELSE IF Le(b.l, a.l) THEN MkS(MNeg(a), Sub(a.l, b.l)) ELSE MkS(MNeg(b), Sub(b.l, a.l))
MNegate(a) == MkS(~MNeg(a), a.l)
MSub(a, b) == MAdd(a, MNegate(b))
MMul(a, b) == MkS(MNeg(a) # MNeg(b), Mul(a.l, b.l))
\* q is the truncating quotient of a by b (b # 0)
IsTruncQuot(q, a, b) ==
  /\ Le(Mul(q.l, b.l), a.l)
  /\ Lt(a.l, Mul(Add(q.l, One), b.l))
  /\ (IsZero(q.l) \/ MNeg(q) = (MNeg(a) # MNeg(b)))

----------------------------------------------------------------------------
(* judgement of one observed result record r (see harness/src/sint.rs::observe) against the
   mathematical value m *)
Consistent(r, m, tag) ==
  (IF ~(Eq(r.l, m.l) /\ (r.neg /\ ~IsZero(r.l)) = MNeg(m)) THEN {tag \o ".value"} ELSE {})
  \cup (IF r.eq0 # IsZero(m.l) THEN {tag \o ".eq_zero"} ELSE {})
  \cup (IF r.lt0 # MNeg(m) THEN {tag \o ".lt_zero"} ELSE {})
  \cup (IF r.gt0 # (~MNeg(m) /\ ~IsZero(m.l)) THEN {tag \o ".gt_zero"} ELSE {})
  \cup (IF r.le0 # (MNeg(m) \/ IsZero(m.l)) \/ r.ge0 # ~MNeg(m) THEN {tag \o ".le_ge_zero"} ELSE {})
  \cup (IF r.cmp0 # (IF MNeg(m) THEN -1 ELSE IF IsZero(m.l) THEN 0 ELSE 1) THEN {tag \o ".cmp_zero"} ELSE {})
  \cup (IF r.isneg # MNeg(m) THEN {tag \o ".is_negative"} ELSE {})
  \cup (IF r.ispos # ~MNeg(m) THEN {tag \o ".is_positive"} ELSE {})
  \cup (IF r.iszero # IsZero(m.l) THEN {tag \o ".is_zero"} ELSE {})
  \cup (IF ~Eq(r.dl, m.l) \/ r.dneg # MNeg(m) THEN {tag \o ".display"} ELSE {})
  \cup (IF ~r.rt \/ ~Eq(r.rtl, m.l) THEN {tag \o ".parse_roundtrip"} ELSE {})
  \cup (IF ~r.serde_rt THEN {tag \o ".serde_roundtrip"} ELSE {})

\* an operation with mathematical result m (representable iff its magnitude fits 128 bits)
JudgeOp(un, ch, m, tag) ==
  LET fits == Fits(m.l)
  IN (IF fits THEN (IF ch.st # "ok" THEN {tag \o ".checked_fails_without_overflow"} ELSE Consistent(ch, m, tag \o ".checked"))
      ELSE (IF ch.st = "ok" THEN {tag \o ".checked_misses_overflow"} ELSE {}))
     \cup (IF fits THEN (IF un.st # "ok" THEN {tag \o ".unchecked_fails"} ELSE Consistent(un, m, tag \o ".unchecked"))
           ELSE {})
     \cup (IF ch.st = "ok" /\ un.st = "ok" /\ ~(Eq(ch.l, un.l) /\ (ch.neg /\ ~IsZero(ch.l)) = (un.neg /\ ~IsZero(un.l))
                                                   /\ ch.eq0 = un.eq0 /\ ch.lt0 = un.lt0)
           THEN {tag \o ".checked_unchecked_disagree"} ELSE {})

\* the compound-assignment form of an operator gives what the operator gives (when representable)
AssignForm(as, un, m, tag) ==
  IF ~Fits(m.l) THEN {}
  ELSE IF as.st # "ok" THEN {tag \o "_fails"} ELSE Consistent(as, m, tag)
\* a From conversion of the operand, where the source type can hold it ("na" otherwise)
Conv(c, m, tag) == IF c.st = "na" THEN {} ELSE IF c.st # "ok" THEN {tag \o "_fails"} ELSE Consistent(c, m, tag)

JudgeRow(r) ==
  LET a == [neg |-> r.a.neg, l |-> r.a.l]
      b == [neg |-> r.b.neg, l |-> r.b.l]
      c == MCmp(a, b)
  IN JudgeOp(r.add, r.cadd, MAdd(a, b), "add")
     \cup JudgeOp(r.sub, r.csub, MSub(a, b), "sub")
     \cup JudgeOp(r.mul, r.cmul, MMul(a, b), "mul")
     \cup (IF IsZero(b.l)
           THEN (IF r.cdiv.st = "ok" THEN {"div.checked_accepts_zero_divisor"} ELSE {})
           ELSE (IF r.cdiv.st # "ok" THEN {"div.checked_fails"}
                 ELSE (IF IsTruncQuot([neg |-> r.cdiv.neg, l |-> r.cdiv.l], a, b) THEN {} ELSE {"div.checked.value"})
                      \cup Consistent(r.cdiv, MkS(r.cdiv.neg, r.cdiv.l), "div.checked"))
                \cup (IF r.div.st # "ok" THEN {"div.unchecked_fails"}
                      ELSE (IF IsTruncQuot([neg |-> r.div.neg, l |-> r.div.l], a, b) THEN {} ELSE {"div.unchecked.value"})
                           \cup Consistent(r.div, MkS(r.div.neg, r.div.l), "div.unchecked"))
                \cup (IF r.cdiv.st = "ok" /\ r.div.st = "ok" /\ ~(Eq(r.cdiv.l, r.div.l) /\ r.cdiv.eq0 = r.div.eq0 /\ r.cdiv.lt0 = r.div.lt0)
                      THEN {"div.checked_unchecked_disagree"} ELSE {}))
     \cup AssignForm(r.adda, r.add, MAdd(a, b), "add.assign")
     \cup AssignForm(r.suba, r.sub, MSub(a, b), "sub.assign")
     \cup AssignForm(r.mula, r.mul, MMul(a, b), "mul.assign")
     \cup (IF IsZero(b.l) \/ r.diva.st # "ok" THEN (IF ~IsZero(b.l) THEN {"div.assign_fails"} ELSE {})
           ELSE (IF IsTruncQuot([neg |-> r.diva.neg, l |-> r.diva.l], a, b) THEN {} ELSE {"div.assign.value"})
                \cup Consistent(r.diva, MkS(r.diva.neg, r.diva.l), "div.assign"))
     \cup UNION {Conv(r.conv[k], MkS(a.neg, a.l), "from_" \o k) : k \in DOMAIN r.conv \ {"default"}}
     \cup Consistent(r.conv["default"], MkS(FALSE, <<0>>), "default")
     \cup Consistent(r.nega, MNegate(a), "neg")
     \cup Consistent(r.absa, MkS(FALSE, a.l), "abs")
     \cup Consistent(r.ida, MkS(a.neg, a.l), "operand")
     \cup (IF r.lt # (c = -1) \/ r.le # (c <= 0) \/ r.gt # (c = 1) \/ r.ge # (c >= 0) THEN {"ord.operators"} ELSE {})
     \cup (IF r.eq # (c = 0) \/ r.ne # (c # 0) THEN {"eq.operators"} ELSE {})
     \cup (IF r.cmp # c \/ r.pcmp # c THEN {"ord.cmp"} ELSE {})
     \cup (IF r.panics # <<>> THEN {"ord.comparison_panics"} ELSE {})

Interesting(r) ==
  (IF IsZero(r.a.l) \/ IsZero(r.b.l) THEN {"zero_operand"} ELSE {})
  \cup (IF Eq(r.a.l, r.b.l) /\ r.a.neg # r.b.neg THEN {"opposite_equal"} ELSE {})
  \cup (IF Len(r.a.l) >= 10 \/ Len(r.b.l) >= 10 THEN {"boundary_128"} ELSE {})
  \cup (IF r.cadd.st # "ok" \/ r.cmul.st # "ok" \/ r.csub.st # "ok" THEN {"overflow"} ELSE {})

----------------------------------------------------------------------------
(* binding of the transcription (SIntT, model-checked in MC_SInt) to the real type: for small
   operands the transcription must predict exactly what was observed (advisory drift) *)
T == INSTANCE SIntT WITH MAXV <- 100000000
Small(x) == Len(x.l) = 1
ToT(x) == [neg |-> x.neg, v |-> x.l[1]]
SameAs(pred, obs) ==
  IF ~pred.ok THEN obs.st # "ok"
  ELSE obs.st = "ok" /\ Len(obs.l) <= 2 /\ pred.val.v = (IF Len(obs.l) = 1 THEN obs.l[1] ELSE obs.l[1] + 10000 * obs.l[2])
       /\ pred.val.neg = obs.neg
TDrift(r) ==
  IF ~(Small(r.a) /\ Small(r.b)) THEN {}
  ELSE LET a == ToT(r.a)
           b == ToT(r.b)
       IN (IF SameAs(T!CheckedAdd(a, b), r.cadd) /\ SameAs(T!Add(a, b), r.add) THEN {} ELSE {"add"})
          \cup (IF SameAs(T!CheckedSub(a, b), r.csub) /\ SameAs(T!Sub(a, b), r.sub) THEN {} ELSE {"sub"})
          \cup (IF SameAs(T!CheckedMul(a, b), r.cmul) /\ SameAs(T!Mul(a, b), r.mul) THEN {} ELSE {"mul"})
          \cup (IF SameAs(T!CheckedDiv(a, b), r.cdiv) /\ SameAs(T!Div(a, b), r.div) THEN {} ELSE {"div"})
          \cup (IF T!EqI(a, b) = r.eq /\ T!CmpI(a, b) = r.cmp THEN {} ELSE {"cmp"})
          \cup (IF T!Invert(a).neg = r.nega.neg /\ T!IsNegative(a) = r.ida.isneg THEN {} ELSE {"neg"})

----------------------------------------------------------------------------
(* table validation as a (single-path) behaviour: one row per step *)
Rows == ndJsonDeserialize(IOEnv.TRACE)
VARIABLES i, hits
TInit == i = 0 /\ hits = [t \in {"rows"} |-> 0]
Bump(h, tags) == [t \in (DOMAIN h) \cup tags |->
                    (IF t \in DOMAIN h THEN h[t] ELSE 0) + (IF t \in tags THEN 1 ELSE 0)]
TNext ==
  /\ i < Len(Rows)
  /\ i' = i + 1
  /\ LET r == Rows[i + 1]
         bad == JudgeRow(r)
     IN /\ \A t \in bad : PrintT(<<"VIOL", i + 1, "sint", i + 1, t, ToJson([a |-> r.a, b |-> r.b])>>)
        /\ \A d \in TDrift(r) : PrintT(<<"DRIFT", i + 1, "sint", i + 1, d, "transcription">>)
        /\ hits' = Bump(hits, Interesting(r) \cup {"rows"} \cup (IF Small(r.a) /\ Small(r.b) THEN {"transcription_compared"} ELSE {}))
  /\ (i' = Len(Rows)) => PrintT(<<"HITS", ToJson(hits')>>)
TSpec == TInit /\ [][TNext]_<<i, hits>>
TAccepted == TLCGet("stats").diameter = Len(Rows) + 1
             \/ (PrintT(<<"REJECTED", TLCGet("stats").diameter, Len(Rows)>>) /\ FALSE)
=============================================================================
