------------------------------- MODULE Engine -------------------------------
(***************************************************************************)
(* Mirror of contracts/margined_engine (handle.rs, reply.rs, messages.rs,   *)
(* utils.rs): one pure operator per handler.  A handler takes the whole     *)
(* deployment W (it may query other contracts, never write them) and        *)
(* returns what a CosmWasm handler returns:                                 *)
(*      [ok, W, msgs, err]   msgs = sequence of sub-messages                *)
(*      sub-message = [to, op, a, funds, id, on]                            *)
(* on \in {"always","error","never"}; the message VM (Vm.tla) dispatches    *)
(* them with CosmWasm's semantics.  Behaviour that looks wrong is mirrored  *)
(* as it is (see DESIGN.md section 6 for the findings); the *properties*    *)
(* expose it.                                                               *)
(*                                                                         *)
(* The in-flight records (tmp-swap, sent-funds, tmp-liquidator) are storage *)
(* of the engine: W.eng.tmp holds the flags the harness can observe and     *)
(* W.eng.tmpd their contents.                                               *)
(***************************************************************************)
EXTENDS EngineQ, TLC

Fail(W, err) == [ok |-> FALSE, W |-> W, msgs |-> <<>>, err |-> err]
Done(W, msgs) == [ok |-> TRUE, W |-> W, msgs |-> msgs, err |-> ""]

NoTmp == [swap |-> FALSE, funds |-> FALSE, liq |-> FALSE]
NoTmpd == [swap |-> [vamm |-> "", trader |-> "", side |-> "buy", margin |-> 0, lev |-> 0, on |-> 0,
                     pn |-> 0, upnl |-> 0, mtv |-> 0, paid |-> FALSE],
           funds |-> [amount |-> 0, required |-> 0], liq |-> ""]
WithTmpd(W) == IF "tmpd" \in DOMAIN W.eng THEN W ELSE [W EXCEPT !.eng = @ @@ [tmpd |-> NoTmpd]]

SideDir(side) == IF side = "buy" THEN "add" ELSE "rem"
DirSide(dir) == IF dir = "add" THEN "buy" ELSE "sell"
PosSide(size) == IF size > 0 THEN "sell" ELSE "buy"       \* utils.rs::position_to_side
Whitelisted(W, t) == \E i \in 1..Len(W.eng.whitelist) : W.eng.whitelist[i] = t
KnownVamm(W, v) == v \in DOMAIN W.vamm
KnownTrader(W, v, t) == KnownVamm(W, v) /\ t \in DOMAIN W.eng.pos[v]

\* utils.rs::get_position (default record when absent)
GetPos(W, v, t, side) ==
  LET p == W.eng.pos[v][t]
  IN IF p.exists THEN p ELSE [EmptyPos EXCEPT !.dir = SideDir(side), !.blk = W.blk.h]
ReadPos(W, v, t) == IF KnownTrader(W, v, t) THEN W.eng.pos[v][t] ELSE EmptyPos

SetPos(W, v, t, p) == [W EXCEPT !.eng.pos[v][t] = [p EXCEPT !.exists = TRUE]]
DelPos(W, v, t)    == [W EXCEPT !.eng.pos[v][t] = EmptyPos]

\* sub-message constructors (messages.rs, handle.rs)
Msg(to, op, a, id, on) == [to |-> to, op |-> op, a |-> a, funds |-> 0, id |-> id, on |-> on]
SwapIn(v, side, q, limit, over, id) ==
  Msg(v, "swap_input", [dir |-> SideDir(side), amount |-> q, limit |-> limit, over |-> over], id, "always")
SwapOut(v, side, b, limit, id) ==
  Msg(v, "swap_output", [dir |-> SideDir(side), amount |-> b, limit |-> limit], id, "always")
\* execute_transfer_from: cw20 TransferFrom by the engine; native: a bank send *from the engine*
XferFrom(W, owner, to, amt) ==
  IF W.eng.cfg.native THEN Msg("bank", "send", [to |-> to, amount |-> amt], 9, "error")
  ELSE Msg("token", "transfer_from", [owner |-> owner, to |-> to, amount |-> amt], 9, "error")
Xfer(W, to, amt) ==
  IF W.eng.cfg.native THEN Msg("bank", "send", [to |-> to, amount |-> amt], 9, "error")
  ELSE Msg("token", "transfer", [to |-> to, amount |-> amt], 9, "error")
FundWithdraw(W, amt) == Msg(W.eng.cfg.ifund, "withdraw", [amount |-> amt], 9, "error")

\* messages.rs::transfer_fees
Fees(W, from, v, notional) ==
  LET f == CalcFee(W.vamm[v], notional)
  IN [spread |-> f.spread, toll |-> f.toll,
      msgs |-> (IF f.spread # 0 THEN <<XferFrom(W, from, W.eng.cfg.ifund, f.spread)>> ELSE <<>>)
               \o (IF f.toll # 0 THEN <<XferFrom(W, from, W.eng.cfg.fpool, f.toll)>> ELSE <<>>)]

\* messages.rs::withdraw -- the balance is the one at the time the calling handler runs
Withdraw(W, receiver, amount, prepaid) ==
  LET bal == W.bal["engine"]
  IN IF bal + prepaid < amount
     THEN [bad |-> W.eng.st.bad_debt + (amount - (bal + prepaid)),
           msgs |-> <<FundWithdraw(W, amount - (bal + prepaid)), Xfer(W, receiver, amount)>>]
     ELSE [bad |-> W.eng.st.bad_debt, msgs |-> <<Xfer(W, receiver, amount)>>]

\* utils.rs::update_open_interest_notional: new oi or FAIL
UpdateOI(W, v, amount, trader) ==
  LET cap == W.vamm[v].cfg.oicap
      upd == Max(0, amount + W.eng.st.oi)
  IN IF cap # 0 /\ amount >= 0 /\ upd > cap /\ ~Whitelisted(W, trader) THEN FAIL ELSE upd

\* utils.rs::require_vamm: "" or the failure class
RequireVamm(W, v) ==
  IF W.eng.cfg.ifund # "ifund" \/ ~KnownVamm(W, v) THEN "other"
  ELSE IF ~IsRegistered(W, v) THEN "not_registered"
  ELSE IF ~W.vamm[v].st.open THEN "closed" ELSE ""

Restricted(W, v, t) ==
  KnownTrader(W, v, t) /\ W.eng.vmap[v].restr = W.blk.h /\ ReadPos(W, v, t).blk = W.blk.h

----------------------------------------------------------------------------
(* handle.rs::open_position *)
OpenPosition(W0, sender, a, funds) ==
  LET W == WithTmpd(W0)
      v == a.vamm
      D == W.eng.cfg.D
  IN IF W.eng.st.paused THEN Fail(W, "paused")
     ELSE IF RequireVamm(W, v) # "" THEN Fail(W, RequireVamm(W, v))
     ELSE IF ~KnownTrader(W, v, sender) THEN Fail(W, "unmodelled_trader")
     ELSE IF Restricted(W, v, sender) THEN Fail(W, "restriction")
     ELSE IF a.margin = 0 \/ a.leverage = 0 THEN Fail(W, "zero_input")
     ELSE IF a.leverage < D THEN Fail(W, "leverage")
     ELSE IF (D * D) \div a.leverage < W.eng.cfg.imr THEN Fail(W, "undercollateralized")
     ELSE LET p == GetPos(W, v, sender, a.side)
              \* fix F19: a zero-size record holds nothing to reverse
              inc == p.size = 0 \/ (p.dir = "add" /\ a.side = "buy") \/ (p.dir = "rem" /\ a.side = "sell")
              on == (a.margin * a.leverage) \div D
              q == PnL(W, v, p, "spot")
          IN IF ~q.ok THEN Fail(W, IF q.over THEN "over" ELSE "panic")
             ELSE LET m == IF inc THEN SwapIn(v, a.side, on, a.limit, FALSE, 1)
                           ELSE IF q.notional > on THEN SwapIn(v, a.side, on, a.limit, FALSE, 2)
                           ELSE SwapOut(v, DirSide(p.dir), Abs(p.size), 0, 3)
                      sw == [vamm |-> v, trader |-> sender, side |-> a.side, margin |-> a.margin,
                             lev |-> a.leverage, on |-> on, pn |-> q.notional, upnl |-> q.pnl,
                             mtv |-> 0, paid |-> FALSE]
                  IN Done([W EXCEPT !.eng.tmp.swap = TRUE, !.eng.tmp.funds = TRUE,
                                    !.eng.tmpd.swap = sw,
                                    !.eng.tmpd.funds = [amount |-> IF W.eng.cfg.native THEN funds ELSE 0,
                                                        required |-> 0]],
                          <<m>>)

(* reply.rs::update_position_reply (ids 1 and 2) *)
UpdatePositionReply(W, id, input, output) ==
  LET sw == W.eng.tmpd.swap
      fd == W.eng.tmpd.funds
      v == sw.vamm
      t == sw.trader
      D == W.eng.cfg.D
      p == GetPos(W, v, t, sw.side)
      sout == IF sw.side = "buy" THEN output ELSE -output
      oi == UpdateOI(W, v, IF id = 1 THEN input ELSE -input, t)
  IN IF ~W.eng.tmp.swap \/ ~W.eng.tmp.funds THEN Fail(W, "no_tmp")
     ELSE IF ~MulOK(sw.upnl, sout) THEN Fail(W, "over")
     ELSE IF oi = FAIL THEN Fail(W, "cap")
     ELSE LET smargin == IF id = 1 THEN (sw.on * D) \div sw.lev ELSE 0
              mtv == IF id = 1 THEN sw.mtv + smargin ELSE sw.mtv
              realized == IF p.size # 0 THEN SDiv(sw.upnl * Abs(sout), Abs(p.size)) ELSE 0
              uafter == sw.upnl - realized
              remn == IF p.size > 0 THEN sw.pn - sw.on - uafter ELSE uafter + sw.pn - sw.on
              delta == IF id = 1 THEN smargin ELSE realized
              rm == RemainMargin(W, v, p, delta)
              np == [p EXCEPT !.dir = IF id = 1 THEN SideDir(sw.side) ELSE p.dir,
                              !.notional = IF id = 1 THEN p.notional + sw.on ELSE Abs(remn),
                              !.size = p.size + sout, !.margin = rm.margin, !.lupf = rm.cpf,
                              !.blk = W.blk.h]
              W1 == SetPos(W, v, t, np)
              hcap == W.vamm[v].cfg.hcap
          IN IF hcap # 0 /\ Abs(np.size) > hcap /\ ~Whitelisted(W, t) THEN Fail(W, "cap")
             ELSE LET wd == Withdraw(W1, t, Abs(mtv), 0)
                      m1 == IF mtv < 0 THEN wd.msgs
                            ELSE IF mtv > 0 /\ ~W.eng.cfg.native THEN <<XferFrom(W, t, "engine", mtv)>>
                            ELSE <<>>
                      req1 == IF mtv > 0 /\ W.eng.cfg.native THEN fd.required + mtv ELSE fd.required   \* fix F3
                      fe == Fees(W, t, v, sw.on)
                      m2 == IF sw.paid THEN <<>> ELSE fe.msgs
                      req2 == IF sw.paid THEN req1 ELSE req1 + fe.spread + fe.toll
                      bad == IF mtv < 0 THEN wd.bad ELSE W.eng.st.bad_debt
                      mr == MarginRatio(W1, v, t)
                  IN IF W.eng.cfg.native /\ fd.amount # req2 THEN Fail(W, "funds")
                     ELSE IF ~mr.ok THEN Fail(W, IF mr.over THEN "over" ELSE "query")
                     ELSE IF mr.val < W.eng.cfg.mmr THEN Fail(W, "undercollateralized")
                     ELSE Done([W1 EXCEPT !.eng.st.oi = oi, !.eng.st.bad_debt = bad,
                                          !.eng.tmp.swap = FALSE, !.eng.tmp.funds = FALSE,
                                          !.eng.tmpd.swap = NoTmpd.swap, !.eng.tmpd.funds = NoTmpd.funds],
                               m1 \o m2)

(* reply.rs::reverse_position_reply (id 3) *)
ReversePositionReply(W, input, output) ==
  LET sw == W.eng.tmpd.swap
      fd == W.eng.tmpd.funds
      v == sw.vamm
      t == sw.trader
      p == GetPos(W, v, t, sw.side)
      oi == UpdateOI(W, v, -output, t)
      prev == -p.margin + FundingOwed(W, v, p)            \* margin released, net of funding (fix F10)
      cleared == [p EXCEPT !.size = 0, !.margin = 0, !.notional = 0, !.lupf = 0, !.blk = W.blk.h]
      rest == Abs(sw.on - output)
      fe == Fees(W, t, v, sw.on)
      req0 == fd.required + fe.spread + fe.toll
      mtv == prev - sw.upnl
      W1 == [SetPos(W, v, t, cleared) EXCEPT !.eng.st.oi = oi]
  IN IF ~W.eng.tmp.swap \/ ~W.eng.tmp.funds THEN Fail(W, "no_tmp")
     ELSE IF oi = FAIL THEN Fail(W, "cap")
     ELSE IF sw.lev = 0 THEN Fail(W, "div0")
     ELSE IF rest \div sw.lev = 0
     THEN IF mtv > 0 THEN Fail(W, "bad_debt")            \* fix F13: negative equity is rejected
          ELSE IF W.eng.cfg.native /\ fd.amount # req0 THEN Fail(W, "funds")
          ELSE Done([W1 EXCEPT !.eng.tmp.swap = FALSE, !.eng.tmp.funds = FALSE,
                               !.eng.tmpd.swap = NoTmpd.swap, !.eng.tmpd.funds = NoTmpd.funds],
                    fe.msgs \o <<Xfer(W, t, Abs(mtv))>>)
     ELSE LET req == req0          \* fix F3: the fees in full; the re-opened leg adds the net amount owed
          IN Done([W1 EXCEPT !.eng.tmpd.swap = [sw EXCEPT !.on = rest, !.mtv = mtv, !.upnl = 0, !.paid = TRUE],
                             !.eng.tmpd.funds = [fd EXCEPT !.required = req]],
                  fe.msgs \o <<SwapIn(v, sw.side, rest, 0, FALSE, 1)>>)

(* handle.rs::close_position *)
ClosePosition(W0, sender, a) ==
  LET W == WithTmpd(W0)
      v == a.vamm
      p == ReadPos(W, v, sender)
      D == W.eng.cfg.D
  IN IF W.eng.st.paused THEN Fail(W, "paused")
     ELSE IF p.size = 0 THEN Fail(W, "zero_position")
     ELSE IF Restricted(W, v, sender) THEN Fail(W, "restriction")
     ELSE LET bdir == IF p.size > 0 THEN "add" ELSE "rem"
              over == IsOverFluct(W.vamm[v], W.blk.h, bdir, Abs(p.size))
          IN IF ~over.ok THEN Fail(W, "query")
             ELSE IF over.val /\ W.eng.cfg.plr < D
             THEN LET side == PosSide(p.size)
                      chunk == (Abs(p.size) * W.eng.cfg.plr) \div D
                      cq == OutputPrice(W.vamm[v].cfg.D, bdir, chunk, W.vamm[v].st.x, W.vamm[v].st.y)
                      q == PnL(W, v, p, "spot")
                  IN IF Bad(cq) \/ ~q.ok THEN Fail(W, "query")
                     ELSE Done([W EXCEPT !.eng.tmp.swap = TRUE,
                                         !.eng.tmpd.swap = [vamm |-> v, trader |-> sender, side |-> side,
                                                            margin |-> Abs(p.size), lev |-> D, on |-> cq,
                                                            pn |-> q.notional, upnl |-> q.pnl, mtv |-> 0, paid |-> FALSE]],
                               <<SwapIn(v, side, cq, 0, TRUE, 5)>>)
             ELSE Done([W EXCEPT !.eng.tmp.swap = TRUE,
                                 !.eng.tmpd.swap = [vamm |-> v, trader |-> sender, side |-> DirSide(p.dir),
                                                    margin |-> Abs(p.size), lev |-> 0, on |-> p.notional,
                                                    pn |-> 0, upnl |-> 0, mtv |-> 0, paid |-> FALSE]],
                       <<SwapOut(v, DirSide(p.dir), Abs(p.size), a.limit, 4)>>)

(* reply.rs::close_position_reply (id 4) *)
ClosePositionReply(W, input, output) ==
  LET sw == W.eng.tmpd.swap
      v == sw.vamm
      t == sw.trader
      p == GetPos(W, v, t, sw.side)
      delta == IF p.dir = "add" THEN output - sw.on ELSE sw.on - output
      rm == RemainMargin(W, v, p, delta)
      amount == rm.margin + sw.upnl
      wd == Withdraw(W, t, Abs(amount), 0)
      fe == Fees(W, t, v, p.notional)
      oi == UpdateOI(W, v, -(delta + rm.bad + p.notional), t)
  IN IF ~W.eng.tmp.swap THEN Fail(W, "no_tmp")
     ELSE IF rm.bad # 0 THEN Fail(W, "bad_debt")
     ELSE IF oi = FAIL THEN Fail(W, "cap")
     ELSE Done([DelPos(W, v, t) EXCEPT !.eng.st.oi = oi,
                                       !.eng.st.bad_debt = IF amount # 0 THEN wd.bad ELSE W.eng.st.bad_debt,
                                       !.eng.tmp.swap = FALSE, !.eng.tmpd.swap = NoTmpd.swap],
               (IF amount # 0 THEN wd.msgs ELSE <<>>) \o (IF p.notional # 0 THEN fe.msgs ELSE <<>>))

(* reply.rs::partial_close_position_reply (id 5) *)
PartialClosePositionReply(W, input, output) ==
  LET sw == W.eng.tmpd.swap
      v == sw.vamm
      t == sw.trader
      p == GetPos(W, v, t, sw.side)
      oi == UpdateOI(W, v, -input, t)
      sout == IF sw.side = "buy" THEN output ELSE -output
      realized == IF p.size # 0 THEN SDiv(sw.upnl * Abs(sout), Abs(p.size)) ELSE 0
      rm == RemainMargin(W, v, p, realized)
      uafter == sw.upnl - realized
      remn == IF p.size > 0 THEN sw.pn - sw.on - uafter ELSE uafter + sw.pn - sw.on
      fe == Fees(W, t, v, sw.on)
      np == [p EXCEPT !.size = p.size + sout, !.margin = rm.margin, !.notional = Abs(remn),
                      !.lupf = rm.cpf, !.blk = W.blk.h]
  IN IF ~W.eng.tmp.swap THEN Fail(W, "no_tmp")
     ELSE IF ~MulOK(sw.upnl, sout) THEN Fail(W, "over")
     ELSE IF oi = FAIL THEN Fail(W, "cap")
     ELSE IF rm.bad # 0 THEN Fail(W, "bad_debt")
     ELSE Done([SetPos(W, v, t, np) EXCEPT !.eng.st.oi = oi, !.eng.tmp.swap = FALSE,
                                           !.eng.tmpd.swap = NoTmpd.swap],
               fe.msgs)

(* handle.rs::liquidate *)
Liquidate(W0, sender, a) ==
  LET W1 == WithTmpd(W0)
      W == [W1 EXCEPT !.eng.tmp.liq = TRUE, !.eng.tmpd.liq = sender]
      v == a.vamm
      t == a.trader
      D == W.eng.cfg.D
  IN IF ~KnownTrader(W, v, t) THEN Fail(W, "unmodelled_trader")
     ELSE LET lr == LiqRatio(W, v, t)
          IN IF ~lr.ok THEN Fail(W, IF lr.over THEN "over" ELSE "query")
             ELSE IF RequireVamm(W, v) # "" THEN Fail(W, RequireVamm(W, v))
             ELSE IF lr.val > W.eng.cfg.mmr THEN Fail(W, "overcollateralized")
             ELSE LET p == ReadPos(W, v, t)
                  IN IF p.size = 0 THEN Fail(W, "zero_position")
                     ELSE IF Abs(lr.val) > W.eng.cfg.liqfee /\ W.eng.cfg.plr # 0
                     THEN \* handle.rs::partial_liquidation
                          LET chunk == (Abs(p.size) * W.eng.cfg.plr) \div D
                              plimit == (a.limit * W.eng.cfg.plr) \div D
                              cn == OutputPrice(W.vamm[v].cfg.D, p.dir, chunk, W.vamm[v].st.x, W.vamm[v].st.y)
                              q == PnL(W, v, p, "spot")
                          IN IF Bad(cn) \/ ~q.ok THEN Fail(W, "panic")
                             ELSE Done([W EXCEPT !.eng.tmp.swap = TRUE,
                                                 !.eng.tmpd.swap = [vamm |-> v, trader |-> t, side |-> PosSide(p.size),
                                                                    margin |-> chunk, lev |-> 0, on |-> cn, pn |-> 0,
                                                                    upnl |-> q.pnl, mtv |-> 0, paid |-> FALSE]],
                                       \* F8 repaired: the slice is always traded as a swap_output
                                       <<SwapOut(v, DirSide(p.dir), chunk, plimit, 7)>>)
                     ELSE Done([W EXCEPT !.eng.tmp.swap = TRUE,
                                         !.eng.tmpd.swap = [vamm |-> v, trader |-> t, side |-> DirSide(p.dir),
                                                            margin |-> Abs(p.size), lev |-> 0, on |-> p.notional,
                                                            pn |-> 0, upnl |-> 0, mtv |-> 0, paid |-> FALSE]],
                               <<SwapOut(v, DirSide(p.dir), Abs(p.size), a.limit, 6)>>)

(* reply.rs::liquidate_reply (id 6) *)
LiquidateReply(W, input, output) ==
  LET sw == W.eng.tmpd.swap
      v == sw.vamm
      t == sw.trader
      by == W.eng.tmpd.liq
      D == W.eng.cfg.D
      p == GetPos(W, v, t, sw.side)
      delta == IF p.dir = "rem" THEN sw.on - output ELSE output - sw.on
      rm == RemainMargin(W, v, p, delta)
      fee == ((output * W.eng.cfg.liqfee) \div D) \div 2
      bad == IF fee > rm.margin THEN rm.bad + (fee - rm.margin) ELSE rm.bad
      margin == IF fee > rm.margin THEN 0 ELSE rm.margin - fee
      prepaid0 == W.eng.st.bad_debt
      \* utils.rs::realize_bad_debt
      delta_bd == IF bad = 0 \/ prepaid0 >= bad THEN 0 ELSE bad - prepaid0
      prepaid1 == IF bad = 0 THEN prepaid0 ELSE IF prepaid0 >= bad THEN prepaid0 - bad ELSE 0
      m1 == IF bad # 0 /\ ~(prepaid0 >= bad) THEN <<FundWithdraw(W, delta_bd)>> ELSE <<>>
      m2 == IF margin # 0 THEN <<Xfer(W, W.eng.cfg.ifund, margin)>> ELSE <<>>
      Wb == [W EXCEPT !.eng.st.bad_debt = prepaid1]
      wd == Withdraw(Wb, by, fee, delta_bd)
  IN IF ~W.eng.tmp.swap \/ ~W.eng.tmp.liq THEN Fail(W, "no_tmp")
     ELSE Done([DelPos(W, v, t) EXCEPT !.eng.st.bad_debt = IF fee # 0 THEN wd.bad ELSE prepaid1,
                                       !.eng.tmp.swap = FALSE, !.eng.tmp.liq = FALSE,
                                       !.eng.tmpd.swap = NoTmpd.swap, !.eng.tmpd.liq = "",
                                       !.eng.vmap[v].restr = W.blk.h],
               m1 \o m2 \o (IF fee # 0 THEN wd.msgs ELSE <<>>))

(* reply.rs::partial_liquidation_reply (id 7) *)
PartialLiquidationReply(W, input, output) ==
  LET sw == W.eng.tmpd.swap
      v == sw.vamm
      t == sw.trader
      by == W.eng.tmpd.liq
      D == W.eng.cfg.D
      p == GetPos(W, v, t, sw.side)
      realized == SDiv(sw.upnl * W.eng.cfg.plr, D)
      penalty == (output * W.eng.cfg.liqfee) \div D
      fee == penalty \div 2
      nsize == IF p.size < 0 THEN p.size + input ELSE p.size - input
      nmargin == CSub(CSub(p.margin, Abs(realized)), penalty)
      \* fix F16: the side is the one before the slice is removed (a 100% slice leaves size 0)
      nnot == IF p.size >= 0 THEN CSub(CSub(p.notional, sw.on), Abs(realized))
              ELSE CSub(Abs(realized) + p.notional, sw.on)
      wd == Withdraw(W, by, fee, 0)
  IN IF ~W.eng.tmp.swap \/ ~W.eng.tmp.liq THEN Fail(W, "no_tmp")
     ELSE IF Bad(nmargin) \/ Bad(nnot) THEN Fail(W, "underflow")
     ELSE Done([SetPos(W, v, t, [p EXCEPT !.size = nsize, !.margin = nmargin, !.notional = nnot,
                                               !.blk = W.blk.h])     \* fix F15: the update is stamped
                  EXCEPT !.eng.st.bad_debt = IF fee # 0 THEN wd.bad ELSE W.eng.st.bad_debt,
                         !.eng.tmp.swap = FALSE, !.eng.tmp.liq = FALSE,
                         !.eng.tmpd.swap = NoTmpd.swap, !.eng.tmpd.liq = "",
                         !.eng.vmap[v].restr = W.blk.h],
               IF fee # 0 THEN <<Xfer(W, W.eng.cfg.ifund, fee)>> \o wd.msgs ELSE <<>>)

(* handle.rs::pay_funding *)
PayFunding(W0, sender, a) ==
  LET W == WithTmpd(W0)
  IN IF RequireVamm(W, a.vamm) # "" THEN Fail(W, RequireVamm(W, a.vamm))
     ELSE Done(W, <<Msg(a.vamm, "settle_funding", [x |-> 0], 8, "always")>>)

(* reply.rs::pay_funding_reply (id 8): frac and the vAMM come from the sub-message's event *)
PayFundingReply(W, v, frac) ==
  LET c == W.eng.vmap[v].cpf
      ncpf == Append(c, IF c = <<>> THEN frac ELSE frac + Last(c))
      pay == SDiv(W.vamm[v].st.total * frac, W.eng.cfg.D)
      W1 == [W EXCEPT !.eng.vmap[v].cpf = ncpf]
  IN IF ~MulOK(W.vamm[v].st.total, frac) THEN Fail(W, "over")
     ELSE IF pay < 0 THEN Done(W1, <<FundWithdraw(W, -pay)>>)
     ELSE IF pay > 0 THEN Done(W1, <<Xfer(W, W.eng.cfg.ifund, Min(W.bal["engine"], pay))>>)
     ELSE Done(W1, <<>>)

(* handle.rs::deposit_margin *)
DepositMargin(W0, sender, a, funds) ==
  LET W == WithTmpd(W0)
      v == a.vamm
      p == ReadPos(W, v, sender)
  IN IF W.eng.st.paused THEN Fail(W, "paused")
     ELSE IF a.amount = 0 THEN Fail(W, "zero_input")
     ELSE IF W.eng.cfg.native /\ funds # a.amount THEN Fail(W, "funds")
     ELSE IF ~p.exists THEN Fail(W, "zero_position")
     ELSE Done(SetPos(W, v, sender, [p EXCEPT !.margin = p.margin + a.amount]),
               IF W.eng.cfg.native THEN <<>> ELSE <<XferFrom(W, sender, "engine", a.amount)>>)

(* handle.rs::withdraw_margin *)
WithdrawMargin(W0, sender, a) ==
  LET W == WithTmpd(W0)
      v == a.vamm
      p == ReadPos(W, v, sender)
  IN IF RequireVamm(W, v) # "" THEN Fail(W, RequireVamm(W, v))
     ELSE IF W.eng.st.paused THEN Fail(W, "paused")
     ELSE IF a.amount = 0 THEN Fail(W, "zero_input")
     ELSE IF ~p.exists THEN Fail(W, "zero_position")
     ELSE LET rm == RemainMargin(W, v, p, -a.amount)
              fc == FreeCollateral(W, v, sender)
              wd == Withdraw(W, sender, a.amount, 0)
          IN IF rm.bad # 0 THEN Fail(W, "bad_debt")
             ELSE IF ~fc.ok THEN Fail(W, IF fc.over THEN "over" ELSE "query")
             ELSE IF fc.val - a.amount < 0 THEN Fail(W, "insufficient_collateral")
             ELSE Done([SetPos(W, v, sender, [p EXCEPT !.margin = rm.margin, !.lupf = rm.cpf])
                          EXCEPT !.eng.st.bad_debt = wd.bad],
                       wd.msgs)

(* handle.rs::update_config; a field is present iff it is in DOMAIN a *)
Has(a, f) == f \in DOMAIN a
EngineUpdateConfig(W, sender, a) ==
  LET c == W.eng.cfg
      D == c.D
      imr1 == IF Has(a, "imr") THEN a.imr ELSE c.imr
      mmr1 == IF Has(a, "mmr") THEN a.mmr ELSE c.mmr
  IN IF sender # c.owner THEN Fail(W, "unauthorized")
     ELSE IF Has(a, "imr") /\ (a.imr > D \/ c.mmr > a.imr) THEN Fail(W, "invalid_config")
     ELSE IF Has(a, "mmr") /\ (a.mmr > D \/ a.mmr > imr1) THEN Fail(W, "invalid_config")
     ELSE IF Has(a, "plr") /\ a.plr > D THEN Fail(W, "invalid_config")
     ELSE IF Has(a, "liqfee") /\ a.liqfee > D THEN Fail(W, "invalid_config")
     ELSE Done([W EXCEPT !.eng.cfg = [c EXCEPT !.owner = IF Has(a, "owner") THEN a.owner ELSE c.owner,
                                               !.ifund = IF Has(a, "ifund") THEN a.ifund ELSE c.ifund,
                                               !.fpool = IF Has(a, "fpool") THEN a.fpool ELSE c.fpool,
                                               !.imr = imr1, !.mmr = mmr1,
                                               !.plr = IF Has(a, "plr") THEN a.plr ELSE c.plr,
                                               !.liqfee = IF Has(a, "liqfee") THEN a.liqfee ELSE c.liqfee]],
               <<>>)

SetPause(W, sender, a) ==
  IF sender # W.eng.pauser \/ W.eng.st.paused = a.pause THEN Fail(W, "unauthorized")
  ELSE Done([W EXCEPT !.eng.st.paused = a.pause], <<>>)
UpdatePauser(W, sender, a) ==
  IF sender # W.eng.pauser THEN Fail(W, "unauthorized") ELSE Done([W EXCEPT !.eng.pauser = a.pauser], <<>>)
AddWhitelist(W, sender, a) ==
  IF sender # W.eng.pauser \/ Whitelisted(W, a.address) THEN Fail(W, "unauthorized")
  ELSE Done([W EXCEPT !.eng.whitelist = Append(@, a.address)], <<>>)
RemoveWhitelist(W, sender, a) ==
  IF sender # W.eng.pauser \/ ~Whitelisted(W, a.address) THEN Fail(W, "unauthorized")
  ELSE LET i == CHOOSE i \in 1..Len(W.eng.whitelist) : W.eng.whitelist[i] = a.address
           n == Len(W.eng.whitelist)
       IN \* cw_controllers::Hooks::remove_hook keeps the order
          Done([W EXCEPT !.eng.whitelist = SubSeq(@, 1, i - 1) \o SubSeq(@, i + 1, n)], <<>>)

EngineExecute(W, sender, op, a, funds) ==
  CASE op = "open_position"   -> OpenPosition(W, sender, a, funds)
    [] op = "close_position"  -> ClosePosition(W, sender, a)
    [] op = "liquidate"       -> Liquidate(W, sender, a)
    [] op = "pay_funding"     -> PayFunding(W, sender, a)
    [] op = "deposit_margin"  -> DepositMargin(W, sender, a, funds)
    [] op = "withdraw_margin" -> WithdrawMargin(W, sender, a)
    [] op = "update_config"   -> EngineUpdateConfig(WithTmpd(W), sender, a)
    [] op = "set_pause"       -> SetPause(WithTmpd(W), sender, a)
    [] op = "update_pauser"   -> UpdatePauser(WithTmpd(W), sender, a)
    [] op = "add_whitelist"   -> AddWhitelist(WithTmpd(W), sender, a)
    [] op = "remove_whitelist" -> RemoveWhitelist(WithTmpd(W), sender, a)
    [] OTHER -> Fail(W, "unknown")

(* contract.rs::reply: every Err arm returns Err; data = what parse_swap / parse_pay_funding read *)
EngineReply(W, id, subok, data) ==
  IF ~subok THEN Fail(W, "sub_failure")
  ELSE CASE id \in {1, 2} -> UpdatePositionReply(W, id, data.input, data.output)
         [] id = 3 -> ReversePositionReply(W, data.input, data.output)
         [] id = 4 -> ClosePositionReply(W, data.input, data.output)
         [] id = 5 -> PartialClosePositionReply(W, data.input, data.output)
         [] id = 6 -> LiquidateReply(W, data.input, data.output)
         [] id = 7 -> PartialLiquidationReply(W, data.input, data.output)
         [] id = 8 -> PayFundingReply(W, data.vamm, data.frac)
         [] OTHER -> Fail(W, "invalid_reply")
=============================================================================
