-------------------------------- MODULE Conf --------------------------------
(***************************************************************************)
(* Full conformance ("drift"): does a recorded step of the real contracts   *)
(* equal the step the mirror specification (Vm.tla) computes from the       *)
(* recorded pre-state?  It keeps the specification honest on the unchanged  *)
(* tree (./check conformance must be clean there).  It is deliberately NOT  *)
(* part of any property's verdict: a code change makes conformance fail     *)
(* whether or not it breaks a property.                                     *)
(***************************************************************************)
EXTENDS Vm, FiniteSets, TLC

ConfTraders == {"tr1", "tr2", "tr3", "liq"}

\* steps the mirror models
Modelled(S, e) ==
  /\ e.kind = "tx"
  /\ e.tx.c \in {"engine", "ifund", "fpool", "feed"} \cup DOMAIN S.vamm
  /\ e.tx.s \in DOMAIN S.bal
  /\ ~(e.tx.c = "feed" /\ e.tx.m = "append_multiple_price")
  /\ (e.tx.c = "engine" /\ e.tx.m \in {"open_position", "close_position", "deposit_margin", "withdraw_margin"}
        => e.tx.s \in ConfTraders /\ e.tx.a.vamm \in DOMAIN S.vamm)
  /\ (e.tx.c = "engine" /\ e.tx.m = "liquidate" => e.tx.a.trader \in ConfTraders /\ e.tx.a.vamm \in DOMAIN S.vamm)
  /\ (e.tx.c = "engine" /\ e.tx.m = "pay_funding" => e.tx.a.vamm \in DOMAIN S.vamm)
  /\ S.eng.pos_extra = <<>>

XKey(x) == <<x.from, x.to, x.amt, x.ok>>
NotFunds(x) == x.kind # "funds"
OkXfers(xs) == LET f == SelectSeq(xs, NotFunds) IN [i \in 1..Len(f) |-> XKey(f[i])]

EngCore(E) == [cfg |-> E.cfg, st |-> E.st, pauser |-> E.pauser, whitelist |-> E.whitelist,
               tmp |-> E.tmp, pos |-> E.pos, vmap |-> E.vmap]

DriftOf(S, e, T) ==
  IF e.kind = "block"
  THEN IF AdvanceBlock(S, e.tx.a.dh, e.tx.a.dt) = T THEN {} ELSE {"block"}
  ELSE IF ~Modelled(S, e) THEN {}
  ELSE LET r == RunTx(S, e.tx, e.fault)
           M == r.W
       IN IF r.err = "over" THEN {}     \* TLC's 32-bit integers could not hold an intermediate: no verdict
          ELSE IF r.ok # e.res.ok THEN {IF r.ok THEN "spec_ok_impl_failed" ELSE "spec_failed_impl_ok"}
          ELSE IF ~r.ok THEN (IF r.ctx.fired # e.fired THEN {"fired"} ELSE {})
          ELSE (IF M.vamm # T.vamm THEN {"vamm"} ELSE {})
               \cup (IF EngCore(M.eng) # EngCore(T.eng)
                     THEN (IF M.eng.pos # T.eng.pos THEN {"eng.pos"} ELSE {})
                          \cup (IF M.eng.st # T.eng.st THEN {"eng.st"} ELSE {})
                          \cup (IF M.eng.cfg # T.eng.cfg THEN {"eng.cfg"} ELSE {})
                          \cup (IF M.eng.vmap # T.eng.vmap THEN {"eng.vmap"} ELSE {})
                          \cup (IF M.eng.tmp # T.eng.tmp THEN {"eng.tmp"} ELSE {})
                          \cup (IF M.eng.pauser # T.eng.pauser \/ M.eng.whitelist # T.eng.whitelist THEN {"eng.roles"} ELSE {})
                     ELSE {})
               \cup (IF M.ifund # T.ifund THEN {"ifund"} ELSE {})
               \cup (IF M.fpool # T.fpool THEN {"fpool"} ELSE {})
               \cup (IF M.feed # T.feed THEN {"feed"} ELSE {})
               \cup (IF M.bal # T.bal THEN {"bal"} ELSE {})
               \cup (IF M.allow # T.allow THEN {"allow"} ELSE {})
               \cup (IF M.blk # T.blk THEN {"blk"} ELSE {})
               \cup (IF OkXfers(r.ctx.xfers) # OkXfers(e.xfers) THEN {"xfers"} ELSE {})
               \cup (IF r.ctx.cnt # (IF e.calls = <<>> THEN 0 ELSE e.calls[Len(e.calls)].n) THEN {"ncalls"} ELSE {})
=============================================================================
