-------------------------------- MODULE Conf --------------------------------
(***************************************************************************)
(* Full conformance ("drift"): does a recorded step of the real contracts   *)
(* equal the step the mirror specification (Vm.tla) computes from the       *)
(* recorded pre-state?  It keeps the specification honest on the unchanged  *)
(* tree (./check conformance must be clean there).  It is deliberately NOT  *)
(* part of any property's verdict: a code change makes conformance fail     *)
(* whether or not it breaks a property.                                     *)
(***************************************************************************)
EXTENDS Vm, FiniteSets, TLC

ConfTraders == {"tr1", "tr2", "tr3", "liq"}

\* steps the mirror models
Modelled(S, e) ==
  /\ e.kind = "tx"
  /\ e.tx.c \in {"engine", "ifund", "fpool", "feed"} \cup DOMAIN S.vamm
  /\ e.tx.s \in DOMAIN S.bal
  /\ (e.tx.c = "engine" /\ e.tx.m \in {"open_position", "close_position", "deposit_margin", "withdraw_margin"}
        => e.tx.s \in ConfTraders /\ e.tx.a.vamm \in DOMAIN S.vamm)
  /\ (e.tx.c = "engine" /\ e.tx.m = "liquidate" => e.tx.a.trader \in ConfTraders /\ e.tx.a.vamm \in DOMAIN S.vamm)
  /\ (e.tx.c = "engine" /\ e.tx.m = "pay_funding" => e.tx.a.vamm \in DOMAIN S.vamm)
  /\ S.eng.pos_extra = <<>>

XKey(x) == <<x.from, x.to, x.amt, x.ok>>
NotFunds(x) == x.kind # "funds"
OkXfers(xs) == LET f == SelectSeq(xs, NotFunds) IN [i \in 1..Len(f) |-> XKey(f[i])]

\* the call sequence of a transaction, entry by entry (contract, message, sender, execute / reply,
\* outcome of the entry itself, injected failure): what the small-step VM (VmStep.tla) emits per micro-step
CallKey(c) == <<c.n, c.to, c.from, c.entry, c.msg, c.ok, c.injected>>
\* (the first entry is the transaction itself: its name is the harness's operation name, not compared)
CallKeys(cs) == [i \in 1..Len(cs) |-> IF i = 1 THEN <<cs[i].n, cs[i].to, cs[i].from, cs[i].entry, "", cs[i].ok, cs[i].injected>>
                                       ELSE CallKey(cs[i])]

EngCore(E) == [cfg |-> E.cfg, st |-> E.st, pauser |-> E.pauser, whitelist |-> E.whitelist,
               tmp |-> E.tmp, pos |-> E.pos, vmap |-> E.vmap]

(***************************************************************************)
(* Query conformance: the answer of a query of the real contracts against   *)
(* the specification's query operators (the oracles of the properties).     *)
(***************************************************************************)
SeqSet(s) == {s[i] : i \in 1..Len(s)}
QNum(e, x) == IF Bad(x) THEN ~e.res.ok ELSE e.res.ok /\ e.res.val = x
QRec(e, r) == IF ~r.ok THEN ~e.res.ok ELSE e.res.ok /\ e.res.val = r.val
QueryOK(S, e) ==
  LET c == e.tx.c
      q == e.tx.m
      a == e.tx.a
  IN IF c \in DOMAIN S.vamm
     THEN LET vm == S.vamm[c]
          IN CASE q = "input_amount"  -> QNum(e, InputPrice(vm.cfg.D, a.dir, a.amount, vm.st.x, vm.st.y))
               [] q = "output_amount" -> QNum(e, OutputPrice(vm.cfg.D, a.dir, a.amount, vm.st.x, vm.st.y))
               [] q = "input_price"   -> QNum(e, QInputPrice(vm, a.dir, a.amount))
               [] q = "output_price"  -> QNum(e, QOutputPrice(vm, a.dir, a.amount))
               [] q = "input_twap"    -> LET x == InputTwap(vm, S.blk.t, a.dir, a.amount) IN x = OVER \/ QNum(e, x)
               [] q = "output_twap"   -> LET x == OutputTwap(vm, S.blk.t, a.dir, a.amount) IN x = OVER \/ QNum(e, x)
               [] q = "spot_price"    -> QNum(e, Spot(vm))
               [] q = "twap_price"    -> LET x == TwapPrice(vm, S.blk.t, a.interval) IN x = OVER \/ QNum(e, x)
               [] q = "underlying_price" -> QNum(e, OraclePrice(S, c))
               [] q = "underlying_twap_price" -> QNum(e, OracleTwap(S, c, a.interval))
               [] q = "calc_fee" -> e.res.ok /\ e.res.val.toll_fee = CalcFee(vm, a.amount).toll
                                            /\ e.res.val.spread_fee = CalcFee(vm, a.amount).spread
               [] q = "is_over_spread_limit" -> QRec(e, IsOverSpread(vm, OraclePrice(S, c)))
               [] q = "is_over_fluctuation_limit" -> QRec(e, IsOverFluct(vm, S.blk.h, a.dir, a.amount))
               [] q = "state" -> e.res.ok /\ e.res.val.quote_asset_reserve = vm.st.x /\ e.res.val.base_asset_reserve = vm.st.y
                                          /\ e.res.val.total_position_size = vm.st.total /\ e.res.val.funding_rate = vm.st.rate
                                          /\ e.res.val.next_funding_time = vm.st.next /\ e.res.val.open = vm.st.open
               [] q = "config" -> e.res.ok /\ e.res.val.decimals = vm.cfg.D /\ e.res.val.toll_ratio = vm.cfg.toll
                                           /\ e.res.val.spread_ratio = vm.cfg.spread /\ e.res.val.fluctuation_limit_ratio = vm.cfg.fluct
                                           /\ e.res.val.funding_period = vm.cfg.period /\ e.res.val.base_asset_holding_cap = vm.cfg.hcap
                                           /\ e.res.val.open_interest_notional_cap = vm.cfg.oicap
                                           /\ e.res.val.spot_price_twap_interval = vm.cfg.twapint
                                           /\ e.res.val.margin_engine = vm.cfg.engine /\ e.res.val.insurance_fund = vm.cfg.ifund
                                           /\ e.res.val.pricefeed = vm.cfg.feed /\ e.res.val.base_asset = vm.cfg.base
               [] q = "owner" -> e.res.ok /\ e.res.val.owner = vm.owner
               [] OTHER -> TRUE
     ELSE IF c = "engine" /\ "vamm" \in DOMAIN a /\ a.vamm \in DOMAIN S.vamm /\ "trader" \in DOMAIN a /\ a.trader \in ConfTraders
     THEN LET p == S.eng.pos[a.vamm][a.trader]
          IN CASE q = "margin_ratio" -> LET r == MarginRatio(S, a.vamm, a.trader) IN r.over \/ QRec(e, r)
               [] q = "free_collateral" -> IF ~p.exists THEN TRUE
                                           ELSE LET r == FreeCollateral(S, a.vamm, a.trader) IN r.over \/ QRec(e, r)
               [] q = "position" -> IF ~p.exists THEN ~e.res.ok
                                    ELSE e.res.ok /\ e.res.val.size = p.size /\ e.res.val.margin = p.margin
                                         /\ e.res.val.notional = p.notional /\ e.res.val.block_number = p.blk
                                         /\ e.res.val.last_updated_premium_fraction = p.lupf
               [] q = "unrealized_pnl" -> LET r == PnL(S, a.vamm, p, IF a.opt = "spot_price" THEN "spot" ELSE a.opt)
                                          IN r.over \/ (IF ~r.ok THEN ~e.res.ok
                                                        ELSE e.res.ok /\ e.res.val.position_notional = r.notional
                                                             /\ e.res.val.unrealized_pnl = r.pnl)
               [] q = "position_with_funding_payment" ->
                    ~p.exists \/ (e.res.ok /\ e.res.val.margin = MarginWithFunding(S, a.vamm, p))
               [] OTHER -> TRUE
     ELSE IF c = "engine" /\ q = "cumulative_premium_fraction" /\ a.vamm \in DOMAIN S.vamm
     THEN QNum(e, Cpf(S, a.vamm)) \/ (e.res.ok /\ e.res.val = Cpf(S, a.vamm))
     ELSE IF c = "engine" /\ q = "state"
     THEN e.res.ok /\ e.res.val.open_interest_notional = S.eng.st.oi /\ e.res.val.bad_debt = S.eng.st.bad_debt
     ELSE IF c = "engine" /\ q = "config"
     THEN e.res.ok /\ e.res.val.decimals = S.eng.cfg.D /\ e.res.val.initial_margin_ratio = S.eng.cfg.imr
                   /\ e.res.val.maintenance_margin_ratio = S.eng.cfg.mmr /\ e.res.val.partial_liquidation_ratio = S.eng.cfg.plr
                   /\ e.res.val.liquidation_fee = S.eng.cfg.liqfee /\ e.res.val.owner = S.eng.cfg.owner
                   /\ e.res.val.insurance_fund = S.eng.cfg.ifund /\ e.res.val.fee_pool = S.eng.cfg.fpool
     ELSE IF c = "engine" /\ q = "pauser"
     THEN e.res.ok /\ e.res.val.pauser = S.eng.pauser
     ELSE IF c = "engine" /\ q = "whitelist"
     THEN e.res.ok /\ SeqSet(e.res.val.hooks) = SeqSet(S.eng.whitelist) /\ Len(e.res.val.hooks) = Len(S.eng.whitelist)
     ELSE IF c = "engine" /\ q = "is_whitelisted"
     THEN e.res.ok /\ e.res.val = (a.address \in SeqSet(S.eng.whitelist))
     \* (both ask the engine's CONFIGURED insurance fund for the vAMM list: a pointer that no longer names the
     \*  fund contract makes them fail)
     ELSE IF c = "engine" /\ q \in {"all_positions", "balance_with_funding_payment"} /\ a.trader \in ConfTraders
          /\ S.eng.cfg.ifund # "ifund"
     THEN ~e.res.ok
     ELSE IF c = "engine" /\ q \in {"all_positions", "balance_with_funding_payment"} /\ a.trader \in ConfTraders
          /\ S.ifund.has_list /\ SeqSet(S.ifund.vamms) \subseteq DOMAIN S.vamm
     THEN LET held(v) == S.eng.pos[v][a.trader].exists
              vs == SelectSeq(S.ifund.vamms, held)
          IN IF q = "all_positions"
             THEN e.res.ok /\ Len(e.res.val) = Len(vs)
                  /\ \A i \in 1..Len(vs) : LET p == S.eng.pos[vs[i]][a.trader]
                                            IN e.res.val[i].vamm = vs[i] /\ e.res.val[i].size = p.size
                                               /\ e.res.val[i].margin = p.margin /\ e.res.val[i].notional = p.notional
             ELSE e.res.ok /\ e.res.val = SumSeq([i \in 1..Len(S.ifund.vamms) |->
                                                    MarginWithFunding(S, S.ifund.vamms[i], S.eng.pos[S.ifund.vamms[i]][a.trader])])
     ELSE IF c = "ifund"
     THEN CASE q = "is_vamm" -> e.res.ok /\ e.res.val.is_vamm = IsRegistered(S, a.vamm)
            [] q = "get_all_vamm" -> IF ~S.ifund.has_list THEN ~e.res.ok ELSE e.res.ok /\ e.res.val.vamm_list = S.ifund.vamms
            [] q = "get_vamm_status" -> a.vamm \in DOMAIN S.vamm => (e.res.ok /\ e.res.val.vamm_status = S.vamm[a.vamm].st.open)
            [] q = "get_all_vamm_status" ->
                 (S.ifund.has_list /\ SeqSet(S.ifund.vamms) \subseteq DOMAIN S.vamm)
                 => (e.res.ok /\ e.res.val.vamm_list_status
                                   = [i \in 1..Len(S.ifund.vamms) |-> <<S.ifund.vamms[i], S.vamm[S.ifund.vamms[i]].st.open>>])
            [] q = "config" -> e.res.ok /\ e.res.val.engine = S.ifund.engine
            [] q = "owner" -> e.res.ok /\ e.res.val.owner = S.ifund.owner
            [] OTHER -> TRUE
     ELSE IF c = "fpool"
     THEN CASE q = "owner" -> e.res.ok /\ e.res.val.owner = S.fpool.owner
            [] q = "get_token_length" -> e.res.ok /\ e.res.val.length = Len(S.fpool.tokens)
            [] q = "get_token_list" -> e.res.ok /\ Len(e.res.val.token_list) = Len(S.fpool.tokens)
            [] OTHER -> TRUE
     ELSE IF c = "feed" /\ S.feed.kind = "real"
     THEN CASE q = "get_price" -> e.res.ok /\ e.res.val.price = RealGetPrice(S.feed, a.key).price
                                           /\ e.res.val.round_id = RealGetPrice(S.feed, a.key).id
            [] q = "get_previous_price" ->
                 LET r == RealGetPreviousPrice(S.feed, a.key, a.n)
                 IN IF ~r.ok THEN ~e.res.ok ELSE e.res.ok /\ e.res.val.price = r.r.price /\ e.res.val.round_id = r.r.id
            [] q = "get_twap_price" -> QNum(e, RealTwap(S.feed, a.key, S.blk.t, a.interval))
            [] OTHER -> TRUE
     ELSE TRUE

DriftOf(S, e, T) ==
  IF e.kind = "query" THEN (IF QueryOK(S, e) THEN {} ELSE {"query"})
  ELSE IF e.kind = "block"
  THEN IF AdvanceBlock(S, e.tx.a.dh, e.tx.a.dt) = T THEN {} ELSE {"block"}
  ELSE IF ~Modelled(S, e) THEN {}
  ELSE LET r == RunTx(S, e.tx, e.fault)
           M == r.W
       IN IF r.err = "over" THEN {}     \* TLC's 32-bit integers could not hold an intermediate: no verdict
          ELSE IF r.ok # e.res.ok THEN {IF r.ok THEN "spec_ok_impl_failed" ELSE "spec_failed_impl_ok"}
          ELSE IF ~r.ok THEN (IF r.ctx.fired # e.fired THEN {"fired"} ELSE {})
                             \cup (IF e.res.err # "panic" /\ CallKeys(r.ctx.calls) # CallKeys(e.calls) THEN {"calls"} ELSE {})
          ELSE (IF M.vamm # T.vamm THEN {"vamm"} ELSE {})
               \cup (IF EngCore(M.eng) # EngCore(T.eng)
                     THEN (IF M.eng.pos # T.eng.pos THEN {"eng.pos"} ELSE {})
                          \cup (IF M.eng.st # T.eng.st THEN {"eng.st"} ELSE {})
                          \cup (IF M.eng.cfg # T.eng.cfg THEN {"eng.cfg"} ELSE {})
                          \cup (IF M.eng.vmap # T.eng.vmap THEN {"eng.vmap"} ELSE {})
                          \cup (IF M.eng.tmp # T.eng.tmp THEN {"eng.tmp"} ELSE {})
                          \cup (IF M.eng.pauser # T.eng.pauser \/ M.eng.whitelist # T.eng.whitelist THEN {"eng.roles"} ELSE {})
                     ELSE {})
               \* the engine's Position query answers exactly the stored records (the model has no separate view)
               \cup (IF "posq" \in DOMAIN T.eng /\ T.eng.posq # T.eng.pos THEN {"eng.posq"} ELSE {})
               \cup (IF M.ifund # T.ifund THEN {"ifund"} ELSE {})
               \cup (IF M.fpool # T.fpool THEN {"fpool"} ELSE {})
               \cup (IF M.feed # T.feed THEN {"feed"} ELSE {})
               \cup (IF M.bal # T.bal THEN {"bal"} ELSE {})
               \cup (IF M.allow # T.allow THEN {"allow"} ELSE {})
               \cup (IF M.blk # T.blk THEN {"blk"} ELSE {})
               \cup (IF OkXfers(r.ctx.xfers) # OkXfers(e.xfers) THEN {"xfers"} ELSE {})
               \cup (IF r.ctx.cnt # (IF e.calls = <<>> THEN 0 ELSE e.calls[Len(e.calls)].n) THEN {"ncalls"} ELSE {})
               \cup (IF CallKeys(r.ctx.calls) # CallKeys(e.calls) THEN {"calls"} ELSE {})
=============================================================================
