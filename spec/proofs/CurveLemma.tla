----------------------------- MODULE CurveLemma -----------------------------
(***************************************************************************)
(* C01, unbounded: the +/-1 remainder correction of the vAMM's pricing      *)
(* functions makes the untouched reserve the *ceiling* of k*D / (moved      *)
(* reserve), hence the scaled product floor(x*y/D) never decreases.         *)
(* Proved with TLAPS for all naturals (the bounded models and the traces    *)
(* check the same fact on the transcribed operators / the real contracts).  *)
(***************************************************************************)
EXTENDS Naturals, Integers, TLAPS

(* division facts used below, for naturals a and positive n *)
LEMMA DivMod == \A a \in Nat, n \in Nat \ {0} :
                  /\ a = n * (a \div n) + (a % n)
                  /\ a % n \in 0..(n - 1)
                  /\ a \div n \in Nat
  BY Z3

LEMMA MulMono == \A d \in Nat, p \in Nat, q \in Nat : p <= q => d * p <= d * q
<1> SUFFICES ASSUME NEW d \in Nat, NEW p \in Nat, NEW q \in Nat, p <= q
             PROVE  d * p <= d * q
  OBVIOUS
<1> DEFINE e0 == q - p
<1>0. e0 \in Nat /\ q = p + e0
  OBVIOUS
<1>1. \E e \in Nat : q = p + e
  BY <1>0
<1>2. PICK e \in Nat : q = p + e
  BY <1>1
<1>3. d * q = d * p + d * e
  BY <1>2, Z3
<1>4. d * e \in Nat /\ d * p \in Nat
  BY Z3
<1> QED
  BY <1>3, <1>4, Z3

LEMMA DivMono == \A a \in Nat, k \in Nat, d \in Nat \ {0} : a >= k * d => a \div d >= k
<1> SUFFICES ASSUME NEW a \in Nat, NEW k \in Nat, NEW d \in Nat \ {0}, a >= k * d
             PROVE  a \div d >= k
  OBVIOUS
<1> DEFINE q == a \div d
<1>1. /\ a = d * q + (a % d)
      /\ a % d \in 0..(d - 1)
      /\ q \in Nat
  BY DivMod
<1>2. SUFFICES ASSUME q < k PROVE FALSE
  BY <1>1
<1>3. q + 1 <= k /\ q + 1 \in Nat
  BY <1>1, <1>2
<1>4. d * (q + 1) <= d * k
  BY <1>3, MulMono
<1>5. d * (q + 1) = d * q + d
  BY <1>1, Z3
<1>6. a < d * q + d
  BY <1>1
<1>7. d * k = k * d
  BY Z3
<1> QED
  BY <1>4, <1>5, <1>6, <1>7

(* new untouched reserve after a swap that moves the other reserve to m > 0 *)
Corrected(k, D, m) == IF (k * D) % m # 0 THEN ((k * D) \div m) + 1 ELSE (k * D) \div m

THEOREM CeilTimes ==
  \A k \in Nat, D \in Nat \ {0}, m \in Nat \ {0} : m * Corrected(k, D, m) >= k * D
<1> SUFFICES ASSUME NEW k \in Nat, NEW D \in Nat \ {0}, NEW m \in Nat \ {0}
             PROVE  m * Corrected(k, D, m) >= k * D
  OBVIOUS
<1> DEFINE a == k * D
<1>1. a \in Nat
  OBVIOUS
<1>2. /\ a = m * (a \div m) + (a % m)
      /\ a % m \in 0..(m - 1)
      /\ a \div m \in Nat
  BY <1>1, DivMod
<1>3. CASE a % m = 0
  BY <1>2, <1>3 DEF Corrected
<1>4. CASE a % m # 0
  <2>1. Corrected(k, D, m) = (a \div m) + 1
    BY <1>4 DEF Corrected
  <2>2. m * ((a \div m) + 1) = m * (a \div m) + m
    BY <1>2
  <2>3. m * (a \div m) + m >= m * (a \div m) + (a % m)
    BY <1>2
  <2> QED
    BY <1>2, <2>1, <2>2, <2>3
<1> QED
  BY <1>3, <1>4

(* the scaled product after the swap is at least the invariant k used to price it *)
THEOREM KMonotone ==
  \A k \in Nat, D \in Nat \ {0}, m \in Nat \ {0} : (m * Corrected(k, D, m)) \div D >= k
<1> SUFFICES ASSUME NEW k \in Nat, NEW D \in Nat \ {0}, NEW m \in Nat \ {0}
             PROVE  (m * Corrected(k, D, m)) \div D >= k
  OBVIOUS
<1>1. m * Corrected(k, D, m) >= k * D
  BY CeilTimes
<1>2. Corrected(k, D, m) \in Nat
  BY DivMod DEF Corrected
<1>3. m * Corrected(k, D, m) \in Nat
  BY <1>2
<1> QED
  BY <1>1, <1>3, DivMono
=============================================================================
