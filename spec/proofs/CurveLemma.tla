----------------------------- MODULE CurveLemma -----------------------------
(***************************************************************************)
(* C01, unbounded: the +/-1 remainder correction of the vAMM's pricing      *)
(* functions makes the untouched reserve the *ceiling* of P / (moved        *)
(* reserve), P = x*y the exact product used as the invariant (fix F12),     *)
(* hence neither x*y nor the scaled product floor(x*y/D) ever decreases,    *)
(* and at an unchanged base reserve the quote reserve cannot be lower.      *)
(* Proved with TLAPS for all naturals (the bounded models and the traces    *)
(* check the same fact on the transcribed operators / the real contracts).  *)
(***************************************************************************)
EXTENDS Naturals, Integers, TLAPS

(* division facts used below, for naturals a and positive n *)
LEMMA DivMod == \A a \in Nat, n \in Nat \ {0} :
                  /\ a = n * (a \div n) + (a % n)
                  /\ a % n \in 0..(n - 1)
                  /\ a \div n \in Nat
  BY Z3

LEMMA MulMono == \A d \in Nat, p \in Nat, q \in Nat : p <= q => d * p <= d * q
<1> SUFFICES ASSUME NEW d \in Nat, NEW p \in Nat, NEW q \in Nat, p <= q
             PROVE  d * p <= d * q
  OBVIOUS
<1> DEFINE e0 == q - p
<1>0. e0 \in Nat /\ q = p + e0
  OBVIOUS
<1>1. \E e \in Nat : q = p + e
  BY <1>0
<1>2. PICK e \in Nat : q = p + e
  BY <1>1
<1>3. d * q = d * p + d * e
  BY <1>2, Z3
<1>4. d * e \in Nat /\ d * p \in Nat
  BY Z3
<1> QED
  BY <1>3, <1>4, Z3

LEMMA DivMono == \A a \in Nat, k \in Nat, d \in Nat \ {0} : a >= k * d => a \div d >= k
<1> SUFFICES ASSUME NEW a \in Nat, NEW k \in Nat, NEW d \in Nat \ {0}, a >= k * d
             PROVE  a \div d >= k
  OBVIOUS
<1> DEFINE q == a \div d
<1>1. /\ a = d * q + (a % d)
      /\ a % d \in 0..(d - 1)
      /\ q \in Nat
  BY DivMod
<1>2. SUFFICES ASSUME q < k PROVE FALSE
  BY <1>1
<1>3. q + 1 <= k /\ q + 1 \in Nat
  BY <1>1, <1>2
<1>4. d * (q + 1) <= d * k
  BY <1>3, MulMono
<1>5. d * (q + 1) = d * q + d
  BY <1>1, Z3
<1>6. a < d * q + d
  BY <1>1
<1>7. d * k = k * d
  BY Z3
<1> QED
  BY <1>4, <1>5, <1>6, <1>7

(* new untouched reserve after a swap that moves the other reserve to m > 0; P = x*y before *)
Corrected(P, m) == IF P % m # 0 THEN (P \div m) + 1 ELSE P \div m

THEOREM CeilTimes ==
  \A P \in Nat, m \in Nat \ {0} : m * Corrected(P, m) >= P
<1> SUFFICES ASSUME NEW P \in Nat, NEW m \in Nat \ {0}
             PROVE  m * Corrected(P, m) >= P
  OBVIOUS
<1>2. /\ P = m * (P \div m) + (P % m)
      /\ P % m \in 0..(m - 1)
      /\ P \div m \in Nat
  BY DivMod
<1>3. CASE P % m = 0
  BY <1>2, <1>3 DEF Corrected
<1>4. CASE P % m # 0
  <2>1. Corrected(P, m) = (P \div m) + 1
    BY <1>4 DEF Corrected
  <2>2. m * ((P \div m) + 1) = m * (P \div m) + m
    BY <1>2
  <2>3. m * (P \div m) + m >= m * (P \div m) + (P % m)
    BY <1>2
  <2> QED
    BY <1>2, <2>1, <2>2, <2>3
<1> QED
  BY <1>3, <1>4

(* the scaled product floor(x*y/D) after the swap is at least what it was before *)
THEOREM KMonotone ==
  \A P \in Nat, D \in Nat \ {0}, m \in Nat \ {0} : (m * Corrected(P, m)) \div D >= P \div D
<1> SUFFICES ASSUME NEW P \in Nat, NEW D \in Nat \ {0}, NEW m \in Nat \ {0}
             PROVE  (m * Corrected(P, m)) \div D >= P \div D
  OBVIOUS
<1>1. m * Corrected(P, m) >= P
  BY CeilTimes
<1>2. Corrected(P, m) \in Nat
  BY DivMod DEF Corrected
<1>3. m * Corrected(P, m) \in Nat
  BY <1>2
<1>4. /\ P = D * (P \div D) + (P % D)
      /\ P % D \in 0..(D - 1)
      /\ P \div D \in Nat
  BY DivMod
<1>5. P >= (P \div D) * D
  BY <1>4, Z3
<1>6. m * Corrected(P, m) >= (P \div D) * D
  BY <1>1, <1>3, <1>4, <1>5
<1> QED
  BY <1>3, <1>4, <1>6, DivMono

(* returning to an earlier base reserve y never finds less quote: if x*y <= x2*y then x <= x2 *)
THEOREM ReturnNoLoss ==
  \A x \in Nat, x2 \in Nat, y \in Nat \ {0} : x * y <= x2 * y => x <= x2
<1> SUFFICES ASSUME NEW x \in Nat, NEW x2 \in Nat, NEW y \in Nat \ {0}, x * y <= x2 * y, x > x2
             PROVE  FALSE
  OBVIOUS
<1>1. x2 + 1 <= x
  OBVIOUS
<1>2. y * (x2 + 1) <= y * x
  BY <1>1, MulMono
<1>3. y * (x2 + 1) = y * x2 + y
  BY Z3
<1>4. y * x = x * y /\ y * x2 = x2 * y
  BY Z3
<1>5. x * y \in Nat /\ x2 * y \in Nat /\ y \in Nat /\ y >= 1
  BY Z3
<1>6. x2 * y + y <= x * y
  BY <1>2, <1>3, <1>4, <1>5
<1> QED
  BY <1>5, <1>6
=============================================================================
