------------------------------- MODULE SIntT -------------------------------
(***************************************************************************)
(* Transcription of packages/margined_common/src/integer.rs (after fix F1): *)
(* a sign-magnitude pair [neg, v]; every operator is the same case split on *)
(* the raw sign flags as the Rust code.  MAXV plays the role of u128::MAX,  *)
(* so overflow behaviour is exercised with small numbers.  TLC checks the   *)
(* transcription exhaustively against the mathematical integers (MC_SInt);  *)
(* SInt.tla compares it with the table observed on the real type.           *)
(***************************************************************************)
EXTENDS Integers

CONSTANT MAXV

Mk(neg, v) == [neg |-> neg, v |-> v]
NewPos(v) == Mk(FALSE, v)
NewNeg(v) == Mk(v # 0, v)                        \* zero has no sign
Invert(a) == Mk(~a.neg /\ a.v # 0, a.v)
AbsI(a)   == Mk(FALSE, a.v)
IsNegative(a) == a.neg /\ a.v # 0
IsPositive(a) == ~IsNegative(a)
IsZeroI(a) == a.v = 0
Val(a) == IF IsNegative(a) THEN -a.v ELSE a.v

Ok(x)  == [ok |-> TRUE, val |-> x]
Err    == [ok |-> FALSE, val |-> NewPos(0)]
\* Uint128 checked ops: -1 = failure
UAdd(x, y) == IF x + y > MAXV THEN -1 ELSE x + y
USub(x, y) == IF x < y THEN -1 ELSE x - y
UMul(x, y) == IF x * y > MAXV THEN -1 ELSE x * y
Wrap(u, neg) == IF u = -1 THEN Err ELSE Ok(IF neg THEN NewNeg(u) ELSE NewPos(u))

CheckedAdd(a, b) ==
  CASE ~a.neg /\ ~b.neg -> Wrap(UAdd(a.v, b.v), FALSE)
    [] a.neg /\ b.neg   -> Wrap(UAdd(a.v, b.v), TRUE)
    [] ~a.neg /\ b.neg  -> IF a.v >= b.v THEN Wrap(USub(a.v, b.v), FALSE) ELSE Wrap(USub(b.v, a.v), TRUE)
    [] a.neg /\ ~b.neg  -> IF a.v > b.v THEN Wrap(USub(a.v, b.v), TRUE) ELSE Wrap(USub(b.v, a.v), FALSE)
CheckedSub(a, b) ==
  CASE ~a.neg /\ b.neg  -> Wrap(UAdd(a.v, b.v), FALSE)
    [] a.neg /\ ~b.neg  -> Wrap(UAdd(a.v, b.v), TRUE)
    [] ~a.neg /\ ~b.neg -> IF a.v >= b.v THEN Wrap(USub(a.v, b.v), FALSE) ELSE Wrap(USub(b.v, a.v), TRUE)
    [] a.neg /\ b.neg   -> IF a.v > b.v THEN Wrap(USub(a.v, b.v), TRUE) ELSE Wrap(USub(b.v, a.v), FALSE)
CheckedMul(a, b) == Wrap(UMul(a.v, b.v), a.neg # b.neg)
CheckedDiv(a, b) == IF b.v = 0 THEN Err ELSE Wrap(a.v \div b.v, a.neg # b.neg)

\* the operators (+ - * /): same arms, but the Uint128 operators panic instead of returning Err
Add(a, b) ==
  CASE ~a.neg /\ ~b.neg -> Wrap(UAdd(a.v, b.v), FALSE)
    [] a.neg /\ b.neg   -> Wrap(UAdd(a.v, b.v), TRUE)
    [] ~a.neg /\ b.neg  -> IF a.v >= b.v THEN Ok(NewPos(a.v - b.v)) ELSE Ok(NewNeg(b.v - a.v))
    [] a.neg /\ ~b.neg  -> IF a.v >= b.v THEN Ok(NewNeg(a.v - b.v)) ELSE Ok(NewPos(b.v - a.v))
Sub(a, b) == Add(a, Invert(b))
Mul(a, b) == Wrap(UMul(a.v, b.v), a.neg # b.neg)
Div(a, b) == IF b.v = 0 THEN Err ELSE Wrap(a.v \div b.v, a.neg # b.neg)

EqI(a, b) == a.v = b.v /\ IsNegative(a) = IsNegative(b)
\* Ord::cmp: -1 / 0 / 1
CmpI(a, b) ==
  IF IsNegative(a) /\ IsPositive(b) THEN -1
  ELSE IF IsPositive(a) /\ IsNegative(b) THEN 1
  ELSE IF IsPositive(a) THEN (IF a.v < b.v THEN -1 ELSE IF a.v = b.v THEN 0 ELSE 1)
  ELSE (IF b.v < a.v THEN -1 ELSE IF a.v = b.v THEN 0 ELSE 1)
\* Display: (has minus sign, digits value)
Display(a) == [minus |-> a.neg /\ a.v # 0, digits |-> a.v]
Parse(d) == IF d.minus THEN NewNeg(d.digits) ELSE NewPos(d.digits)

=============================================================================
