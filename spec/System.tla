------------------------------- MODULE System -------------------------------
(***************************************************************************)
(* A deployment as a state machine: accounts submit transactions (optionally*)
(* with a failure injected at the n-th sub-call), blocks advance.  One TLC   *)
(* state per transaction: the next state is what the message VM (Vm.tla)     *)
(* computes from the handlers of the mirror specification.                   *)
(*                                                                         *)
(* The properties are the step predicates of Props.tla, checked on every     *)
(* transition TLC explores (action property StepOK), exactly the formulas    *)
(* that trace validation evaluates on executions of the real contracts.      *)
(*                                                                         *)
(* `hist` (the inputs so far) and `last` are history variables hidden from   *)
(* the fingerprint by a VIEW; hist is exported as a replayable scenario.     *)
(***************************************************************************)
EXTENDS Findings, Conf, Json

CONSTANTS InitW,        \* initial deployment (generated from the harness's own deployment)
          TxAlphabet,   \* set of transactions [c, m, s, a, funds]
          Gaps,         \* block time gaps (seconds)
          Faults,       \* call indices at which a failure may be injected (0 = none)
          MaxDepth,     \* bound on the number of steps
          Only,         \* property id checked
          Known,        \* ids of recorded known findings (suppressed)
          Export        \* TRUE: print one scenario per state at MaxDepth

VARIABLES W, aux, last, hist
vars == <<W, aux, last, hist>>
View == <<W, aux>>

NoEvent == [kind |-> "reset"]

Init == /\ W = InitW
        /\ aux = AuxInit(InitW)
        /\ last = NoEvent
        /\ hist = <<>>

Event(tx, fault, r, pre, post) ==
  [kind |-> "tx", scn |-> "mc", i |-> Len(hist) + 1, tx |-> tx, fault |-> fault, fired |-> r.ctx.fired,
   res |-> [ok |-> r.ok, err |-> r.err, val |-> 0],
   calls |-> r.ctx.calls, xfers |-> r.ctx.xfers, swaps |-> r.ctx.swaps,
   dpre |-> "a", dpost |-> IF post = pre THEN "a" ELSE "b"]

\* funds a native-collateral caller attaches: what the same call pulls on a cw20 deployment
\* is not known to the caller in general; the alphabet supplies explicit amounts.
DoTx(tx, fault) ==
  LET r == RunTx(W, tx, fault)
      e == Event(tx, fault, r, W, r.W)
  IN /\ r.err # "over"
     /\ SafeWorld(r.W)                        \* stay inside what 32-bit integers can multiply
     /\ (fault # 0 => r.ctx.fired)            \* only faults that actually hit a sub-call
     /\ W' = r.W
     /\ last' = e
     /\ aux' = AuxNext(aux, W, e, r.W)
     /\ hist' = Append(hist, [k |-> "tx", c |-> tx.c, m |-> tx.m, s |-> tx.s, a |-> tx.a, funds |-> tx.funds, fault |-> fault])

DoBlock(dt) ==
  LET e == [kind |-> "block", scn |-> "mc", i |-> Len(hist) + 1,
            tx |-> [c |-> "", m |-> "block", s |-> "", a |-> [dh |-> 1, dt |-> dt], funds |-> 0],
            fault |-> 0, fired |-> FALSE, res |-> [ok |-> TRUE, err |-> "", val |-> 0],
            calls |-> <<>>, xfers |-> <<>>, swaps |-> <<>>, dpre |-> "a", dpost |-> "a"]
  IN /\ W' = AdvanceBlock(W, 1, dt)
     /\ last' = e
     /\ aux' = AuxNext(aux, W, e, W')
     /\ hist' = Append(hist, [k |-> "block", dh |-> 1, dt |-> dt])

Next == /\ Len(hist) < MaxDepth
        /\ \/ \E tx \in TxAlphabet, f \in Faults : DoTx(tx, f)
           \/ \E dt \in Gaps : DoBlock(dt)

Spec == Init /\ [][Next]_vars

(* the property under check, on every explored transition; known findings are suppressed *)
BadTags(S, e, T, a) == {t \in Violations(Only, S, e, T, a) : FindingOf(t, S, e, T) \notin Known}
StepOK ==
  [][ LET bad == BadTags(W, last', W', aux)
      IN bad = {} \/ (PrintT(<<"MCVIOL", CHOOSE t \in bad : TRUE, ToJson(hist')>>) /\ FALSE) ]_vars

(* scenario export (spec -> impl): one replayable history per distinct state at the depth bound *)
ExportInv == (Export /\ Len(hist) = MaxDepth) => PrintT(<<"SCN", ToJson(hist)>>)
=============================================================================
