------------------------------- MODULE Extras -------------------------------
(***************************************************************************)
(* Invariants of the system beyond the listed properties (the specification *)
(* keeps growing past the list).  They are checked on recorded executions   *)
(* (ONLY=EXTRA) and on the bounded models; they are advisory: a violation   *)
(* is reported as EXTRA, never as a VIOLATION of a listed property.         *)
(***************************************************************************)
EXTENDS Props, SequencesExt

IsPrefixOf(s, t) == Len(s) <= Len(t) /\ \A i \in 1..Len(s) : s[i] = t[i]

X_All(S, e, T) ==
  UNION {
    LET vm == T.vamm[v]
        sn == vm.snaps
    IN Tag(vm.nsnaps = Len(sn), "X01.snapshot_counter")
       \cup Tag(\A i \in 1..(Len(sn) - 1) : sn[i].t <= sn[i + 1].t, "X02.snapshot_time_monotone")
       \cup Tag(IsPrefixOf(SubSeq(S.vamm[v].snaps, 1, Len(S.vamm[v].snaps) - 1), sn), "X03.snapshots_append_only")
       \cup Tag(vm.st.x > 0 /\ vm.st.y > 0, "X04.reserves_positive")
       \cup Tag(T.eng.vmap[v].restr <= T.blk.h, "X05.restriction_block_not_in_future")
       \cup Tag(IsPrefixOf(S.eng.vmap[v].cpf, T.eng.vmap[v].cpf)
                /\ Len(T.eng.vmap[v].cpf) <= Len(S.eng.vmap[v].cpf) + 1, "X06.premium_fractions_append_only")
       \cup UNION { LET p == T.eng.pos[v][t]
                    IN IF ~p.exists THEN {}
                       ELSE Tag((p.size > 0 => p.dir = "add") /\ (p.size < 0 => p.dir = "rem"), "X07.direction_matches_sign")
                            \cup Tag(p.blk <= T.blk.h, "X08.stamp_not_in_future")
                            \cup Tag(p.size # 0 \/ (p.margin = 0 /\ p.notional = 0), "X09.empty_position_is_blank")
                            \cup Tag(p.lupf = 0 \/ \E i \in 1..Len(T.eng.vmap[v].cpf) : T.eng.vmap[v].cpf[i] = p.lupf,
                                     "X10.checkpoint_is_a_recorded_fraction")
                  : t \in Traders }
    : v \in Vs(T) }
  \cup Tag(T.eng.st.oi >= 0 /\ T.eng.st.bad_debt >= 0, "X11.unsigned_state")
  \cup Tag(NoDup(T.eng.whitelist) /\ NoDup(T.fpool.tokens) /\ Len(T.fpool.tokens) <= 3, "X12.lists")
  \cup Tag(\A a \in DOMAIN T.bal : T.bal[a] >= 0, "X13.balances_nonnegative")
  \cup (IF T.feed.kind = "real"
        THEN UNION { LET rs == T.feed.rounds[k]
                     IN Tag(\A i \in 1..Len(rs) : rs[i].id = i - 1, "X14.round_ids_consecutive")
                        \cup Tag(k \notin DOMAIN S.feed.rounds \/ IsPrefixOf(S.feed.rounds[k], rs), "X15.rounds_append_only")
                   : k \in DOMAIN T.feed.rounds }
        ELSE {})
  \cup (IF e.kind = "tx" /\ ~e.res.ok THEN Tag(e.dpre = e.dpost, "X16.failed_tx_changes_nothing") ELSE {})
  \cup UNION { Tag(T.vamm[v].st.x * T.vamm[v].st.y >= S.vamm[v].st.x * S.vamm[v].st.y, "X19.exact_product_monotone") : v \in Vs(T) }
  \cup (IF e.kind = "block" THEN Tag(T.blk.h > S.blk.h /\ T.blk.t > S.blk.t, "X17.time_advances") ELSE {})
  \* link to spec/proofs/CurveLemma.tla: after a single swap the untouched reserve is Corrected(k, D, moved)
  \cup (IF e.kind = "tx" /\ e.res.ok /\ Len(e.swaps) = 1 /\ e.swaps[1].vamm \in Vs(S)
        THEN LET v == e.swaps[1].vamm
                 P == S.vamm[v].st.x * S.vamm[v].st.y
                 Corr(m) == IF P % m # 0 THEN (P \div m) + 1 ELSE P \div m
             IN IF e.swaps[1].quote = 0 \/ e.swaps[1].base = 0 THEN {}
                ELSE IF e.swaps[1].type = "input"
                THEN Tag(T.vamm[v].st.y = Corr(T.vamm[v].st.x), "X18.input_swap_leaves_ceiling")
                ELSE Tag(T.vamm[v].st.x = Corr(T.vamm[v].st.y), "X18.output_swap_leaves_ceiling")
        ELSE {})
=============================================================================
